-- Arithmetic lemma used by the engine's model of math/bits.Div64 applied to the result of math/bits.Mul64
-- (go/store/nbs/archive_reader.go, prollyBinSearch): the quotient of a product by something at least as large as
-- one factor is at most the other factor. The engine models both operations exactly (128-bit product and
-- quotient); this consequence is added to the solver's context because no installed solver derives it from the
-- bit-level definitions within the time limit. Checked by `lean` on every run of the checks that use it.
theorem mul_div_le_right (X Y y : Nat) (h : X ≤ y) : X * Y / y ≤ Y :=
  Nat.div_le_of_le_mul (Nat.mul_le_mul_right Y h)

theorem mul_div_le_left (X Y y : Nat) (h : Y ≤ y) : X * Y / y ≤ X := by
  rw [Nat.mul_comm]
  exact mul_div_le_right Y X y h

-- the high word of a 64x64-bit product is below either non-zero factor
theorem mul_hi_lt_left (X Y : Nat) (hX : 0 < X) (hY : Y < 2 ^ 64) : X * Y / 2 ^ 64 < X := by
  apply Nat.div_lt_of_lt_mul
  rw [Nat.mul_comm X Y]
  exact Nat.mul_lt_mul_of_pos_right hY hX

theorem mul_hi_lt_right (X Y : Nat) (hY : 0 < Y) (hX : X < 2 ^ 64) : X * Y / 2 ^ 64 < Y := by
  rw [Nat.mul_comm]
  exact mul_hi_lt_left Y X hY hX
