package main

// Uninterpreted functions of byte ranges (checksums, hashes): the result is a fresh symbol per
// application; for every pair of applications of the same function an axiom states that equal
// scalar arguments and equal byte strings give equal results. The "equal byte strings" antecedent
// is a universal statement in negative position, so it is skolemised with a fresh witness index
// (sound: if the ranges differ somewhere the witness can be that position).

type rangeAxiom struct {
	a, b string
	ax   *Term
}

type rangeApp struct {
	name    string
	scalars []*Term
	arr     *Term
	off     *Term
	ln      *Term
	res     *Term
}

func (e *Exec) rangeFn(s *State, name string, scalars []*Term, data Value, res *Sort) *Term {
	c := e.c
	var arr, off, ln *Term
	switch d := data.(type) {
	case *SliceV:
		if d.Base == nil {
			arr, off, ln = c.ZeroOf(SArr(SBV(8))), BVConst(0, 64), BVConst(0, 64)
		} else {
			a, ok := e.load(s, d.Base).(*Term)
			if !ok {
				return c.Fresh(name, res)
			}
			arr, off, ln = a, d.Off, d.Len
		}
	case *StringV:
		arr, off, ln = d.Arr, d.Off, d.Len
	default:
		return c.Fresh(name, res)
	}
	r := c.Fresh(name, res)
	app := &rangeApp{name: name, scalars: scalars, arr: arr, off: off, ln: ln, res: r}
	for _, p := range e.rangeApps {
		if p.name != name || len(p.scalars) != len(scalars) || !p.res.Sort.Eq(res) {
			continue
		}
		conds := []*Term{c.Eq(p.ln, ln)}
		for i := range scalars {
			conds = append(conds, c.Eq(p.scalars[i], scalars[i]))
		}
		if !(p.arr.S == arr.S && p.off.S == off.S) {
			w := c.Fresh("rw", SBV(64))
			conds = append(conds, c.Implies(c.ULt(w, ln), c.Eq(c.Select(p.arr, c.Add(p.off, w)), c.Select(arr, c.Add(off, w)))))
		}
		e.rangeAxioms = append(e.rangeAxioms, rangeAxiom{a: p.res.S, b: r.S, ax: c.Implies(c.And(conds...), c.Eq(p.res, r))})
	}
	e.rangeApps = append(e.rangeApps, app)
	return r
}
