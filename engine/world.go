package main

// Loading of the real packages (with -tags verif), SSA construction, contract parsing.

import (
	"fmt"
	"go/ast"
	"go/parser"
	"go/token"
	"go/types"
	"os"
	"regexp"
	"sort"
	"strconv"
	"strings"

	"golang.org/x/tools/go/packages"
	"golang.org/x/tools/go/ssa"
	"golang.org/x/tools/go/ssa/ssautil"
)

type Clause struct {
	Text  string
	Expr  ast.Expr
	Exprs []ast.Expr // modifies: list of location expressions
	Info  *types.Info
	Pos   token.Pos
	Line  string // file:line of the contract text
	Uses  []int  // invariants: the other invariants kept as hypotheses when proving preservation (nil: all)
}

type LoopContract struct {
	Invariants []*Clause
	Decreases  *Clause
	DecSigned  bool
}

type GhostSet struct {
	LHS ast.Expr
	RHS *Clause
}

type AtCall struct {
	Callee  string
	Expr    *Clause
	Site    int       // `at call f#N`: only the N-th call site of f in source order (0 = every call site)
	SitePos token.Pos // position of that call site
}

type Contract struct {
	Key         string // contract key as written
	Short       string
	Fn          *ssa.Function
	IsExtern    bool
	ExternFor   string
	Requires    []*Clause
	Ensures     []*Clause
	Modifies    []*Clause
	HasModifies bool
	Loops       map[int]*LoopContract
	GhostSets   []*GhostSet
	AtCalls     []*AtCall
	AssumeRequires map[string]bool // callees whose preconditions are assumed at call sites of this function
	MissingSites []string // `at call f#N` clauses whose call site no longer exists: reported as failed obligations
	NoPanic     bool
	PanicKinds  map[string]bool // `nopanic bounds nil ...`: only these kinds of panic are obligations (empty = all)
	Pure        bool
	Inline      bool
	Opaque      bool
	Trusted     string // non-empty: contract is assumed, not verified (reason)
	Props       []string
	IsLemma     bool
	raw         []rawClause
	pkg         *packages.Package
	MayPanic    bool
	File        string
	InlineCalls map[string]int // callee name -> unroll bound (0: callee loops need contracts)
	AlsoModifies bool
	DroppedInv  []string // loop invariants dropped because they no longer type-check
	Stale       string // non-empty: the contract no longer matches the code (function gone, clause does not type-check)
}

// TypeCheck is a data-structure contract on a type's method set.
type TypeCheck struct {
	Pkg     *packages.Package
	Type    string
	Methods []string
	Props   []string
	File    string
}

type rawClause struct {
	kw   string
	text string
	loop int
	line string
}

type loopInfo struct {
	ordinal int
	header  *ssa.BasicBlock
	blocks  map[*ssa.BasicBlock]bool
	cells   []*ssa.Alloc
	bodyPos token.Pos
	rangeKey types.Object // range loops: the key variable (denotes hidden index + 1 in this loop's invariants)
	rangeIdx *ssa.Alloc   // range loops: the hidden index cell
	rangeIter ssa.Value   // string range loops: the iterator (its hidden cell is the byte position of the next rune)
}

type fnLoops struct {
	n        int
	byHeader map[*ssa.BasicBlock]*loopInfo
	list     []*loopInfo
}

type World struct {
	fset        *token.FileSet
	pkgs        []*packages.Package
	pkgByPath   map[string]*packages.Package
	prog        *ssa.Program
	contracts   map[*ssa.Function]*Contract
	byKey       map[string]*Contract
	externs     map[string]*Contract
	loops       map[*ssa.Function]*fnLoops
	cells       map[*ssa.Function]map[token.Pos]*ssa.Alloc
	globals     map[*types.Var]*ssa.Global
	stable      map[*ssa.Global]bool
	inlineLimit int
	allFns      map[*ssa.Function]bool
	constGlobals map[string]bool
	ghostGlobals map[string]bool
	errs        []string
	instrRank   map[ssa.Instruction]int
	typeChecks  []*TypeCheck
	stale       []string
	dropped     []string
}

var leafPkgs = []string{"encoding/binary", "math/bits"}

func loadWorld(dir string, patterns []string, overlay map[string][]byte) (*World, error) {
	w := &World{
		contracts: map[*ssa.Function]*Contract{}, byKey: map[string]*Contract{}, externs: map[string]*Contract{},
		loops: map[*ssa.Function]*fnLoops{}, cells: map[*ssa.Function]map[token.Pos]*ssa.Alloc{},
		globals: map[*types.Var]*ssa.Global{}, stable: map[*ssa.Global]bool{}, inlineLimit: 120,
		pkgByPath: map[string]*packages.Package{}, constGlobals: map[string]bool{}, ghostGlobals: map[string]bool{},
		instrRank: map[ssa.Instruction]int{},
	}
	w.fset = token.NewFileSet()
	cfg := &packages.Config{
		Mode:       packages.LoadSyntax | packages.NeedDeps | packages.NeedImports,
		Dir:        dir,
		Fset:       w.fset,
		BuildFlags: []string{"-tags=verif"},
		Overlay:    overlay,
		Env:        append(os.Environ(), "GOFLAGS=-mod=mod", "GOPROXY=off", "GOSUMDB=off", "GOTOOLCHAIN=local"),
	}
	pats := append(append([]string{}, patterns...), leafPkgs...)
	pkgs, err := packages.Load(cfg, pats...)
	if err != nil {
		return nil, err
	}
	var errs []string
	for _, p := range pkgs {
		for _, e := range p.Errors {
			errs = append(errs, e.Error())
		}
	}
	if len(errs) > 0 {
		return nil, fmt.Errorf("package errors:\n%s", strings.Join(errs, "\n"))
	}
	w.pkgs = pkgs
	prog, spkgs := ssautil.Packages(pkgs, ssa.NaiveForm|ssa.InstantiateGenerics)
	w.prog = prog
	for i, sp := range spkgs {
		if sp != nil {
			sp.Build()
			w.pkgByPath[pkgs[i].PkgPath] = pkgs[i]
		}
	}
	for _, sp := range spkgs {
		if sp == nil {
			continue
		}
		for _, m := range sp.Members {
			if g, ok := m.(*ssa.Global); ok {
				if v, ok := g.Object().(*types.Var); ok {
					w.globals[v] = g
				}
			}
		}
	}
	w.allFns = ssautil.AllFunctions(prog)
	for _, p := range pkgs {
		if err := w.parseContracts(p); err != nil {
			return nil, err
		}
	}
	return w, nil
}

func (w *World) globalFor(v *types.Var) *ssa.Global {
	if g, ok := w.globals[v]; ok {
		return g
	}
	if v.Pkg() != nil {
		if sp := w.prog.Package(v.Pkg()); sp != nil {
			if g, ok := sp.Members[v.Name()].(*ssa.Global); ok {
				w.globals[v] = g
				return g
			}
		}
	}
	return nil
}

func (w *World) contractFor(fn *ssa.Function) *Contract {
	if c, ok := w.contracts[fn]; ok && c.Stale == "" {
		return c
	}
	if o := fn.Origin(); o != nil {
		if c, ok := w.contracts[o]; ok && c.Stale == "" {
			return c
		}
	}
	return nil
}

// globalStable: reads of g are consistent within one function execution and unknown calls do not change it.
func (w *World) globalStable(g *ssa.Global) bool {
	if v, ok := w.stable[g]; ok {
		return v
	}
	name := g.Pkg.Pkg.Name() + "." + g.Name()
	if w.ghostGlobals[name] || w.constGlobals[name] {
		w.stable[g] = true
		return true
	}
	res := true
	// a global is stable when nothing outside init writes it or takes its address
	for fn := range w.allFns {
		if fn.Pkg != g.Pkg || fn.Blocks == nil {
			continue
		}
		if fn.Name() == "init" || strings.HasPrefix(fn.Name(), "init#") {
			continue
		}
		for _, b := range fn.Blocks {
			for _, in := range b.Instrs {
				for _, op := range in.Operands(nil) {
					if *op != ssa.Value(g) {
						continue
					}
					if !w.readOnlyUse(in, g, 0) {
						res = false
					}
				}
			}
		}
	}
	w.stable[g] = res
	return res
}

func (w *World) readOnlyUse(in ssa.Instruction, v ssa.Value, depth int) bool {
	if depth > 4 {
		return false
	}
	switch x := in.(type) {
	case *ssa.UnOp:
		return x.Op == token.MUL
	case *ssa.FieldAddr, *ssa.IndexAddr:
		val := in.(ssa.Value)
		refs := val.Referrers()
		if refs == nil {
			return false
		}
		for _, r := range *refs {
			if !w.readOnlyUse(r, val, depth+1) {
				return false
			}
		}
		return true
	case *ssa.DebugRef:
		return true
	case *ssa.Slice:
		// slicing a global array: contents could be written through the slice. Accepted only when the slice is used
		// as nothing but the SOURCE of the builtin copy (`copy(dst, table[:])`)
		refs := x.Referrers()
		if refs == nil {
			return false
		}
		for _, r := range *refs {
			if _, ok := r.(*ssa.DebugRef); ok {
				continue
			}
			c, ok := r.(*ssa.Call)
			if !ok {
				return false
			}
			b, ok := c.Call.Value.(*ssa.Builtin)
			if !ok || b.Name() != "copy" || len(c.Call.Args) != 2 || c.Call.Args[1] != ssa.Value(x) || c.Call.Args[0] == ssa.Value(x) {
				return false
			}
		}
		return true
	}
	return false
}

// ---- loops

func (w *World) loopsOf(fn *ssa.Function) *fnLoops {
	if l, ok := w.loops[fn]; ok {
		return l
	}
	fl := &fnLoops{byHeader: map[*ssa.BasicBlock]*loopInfo{}}
	w.loops[fn] = fl
	if fn.Blocks == nil {
		return fl
	}
	rank := 0
	for _, b := range fn.Blocks {
		for _, in := range b.Instrs {
			rank++
			w.instrRank[in] = rank
		}
	}
	// back edges: b -> h with h dominating b
	for _, b := range fn.Blocks {
		for _, h := range b.Succs {
			if h.Dominates(b) {
				li := fl.byHeader[h]
				if li == nil {
					li = &loopInfo{header: h, blocks: map[*ssa.BasicBlock]bool{h: true}}
					fl.byHeader[h] = li
				}
				// natural loop of back edge b->h
				stack := []*ssa.BasicBlock{b}
				for len(stack) > 0 {
					n := stack[len(stack)-1]
					stack = stack[:len(stack)-1]
					if li.blocks[n] {
						continue
					}
					li.blocks[n] = true
					stack = append(stack, n.Preds...)
				}
			}
		}
	}
	for _, li := range fl.byHeader {
		fl.list = append(fl.list, li)
	}
	sort.Slice(fl.list, func(i, j int) bool { return fl.list[i].header.Index < fl.list[j].header.Index })
	// source order of loop statements; goto-loops are matched through their label
	var astLoops []token.Pos
	var astKeys []types.Object
	var tinfo *types.Info
	if fn.Pkg != nil {
		if p := w.pkgByPath[fn.Pkg.Pkg.Path()]; p != nil {
			tinfo = p.TypesInfo
		}
	}
	labels := map[string]token.Pos{}
	if syn := fn.Syntax(); syn != nil {
		var body *ast.BlockStmt
		switch s := syn.(type) {
		case *ast.FuncDecl:
			body = s.Body
		case *ast.FuncLit:
			body = s.Body
		}
		if body != nil {
			ast.Inspect(body, func(n ast.Node) bool {
				switch x := n.(type) {
				case *ast.FuncLit:
					return false
				case *ast.ForStmt:
					astLoops = append(astLoops, x.Body.Lbrace+1)
					astKeys = append(astKeys, nil)
				case *ast.RangeStmt:
					astLoops = append(astLoops, x.Body.Lbrace+1)
					var key types.Object
					if id, ok := x.Key.(*ast.Ident); ok && tinfo != nil && id.Name != "_" {
						key = tinfo.Defs[id]
						if key == nil {
							key = tinfo.Uses[id]
						}
					}
					astKeys = append(astKeys, key)
				case *ast.LabeledStmt:
					labels[x.Label.Name] = x.Stmt.End()
				}
				return true
			})
		}
	}
	{
		// structured loops in header order <-> for/range statements in source order
		var structured []*loopInfo
		for _, li := range fl.list {
			c := li.header.Comment
			if strings.HasPrefix(c, "for.") || strings.HasPrefix(c, "range") {
				structured = append(structured, li)
			} else if pos, ok := labels[c]; ok {
				li.bodyPos = pos
			}
		}
		if len(structured) == len(astLoops) {
			for i, li := range structured {
				li.bodyPos = astLoops[i]
				if strings.HasPrefix(li.header.Comment, "rangeiter") {
					for _, in := range li.header.Instrs {
						if nx, ok := in.(*ssa.Next); ok && nx.IsString {
							li.rangeIter = nx.Iter
							li.rangeKey = astKeys[i]
						}
					}
				}
				if strings.HasPrefix(li.header.Comment, "rangeindex") {
					// the hidden index cell is the first cell loaded in the header
					for _, in := range li.header.Instrs {
						if u, ok := in.(*ssa.UnOp); ok && u.Op == token.MUL {
							if a, ok := u.X.(*ssa.Alloc); ok && a.Comment == "rangeindex" {
								li.rangeKey, li.rangeIdx = astKeys[i], a
							}
							break
						}
					}
				}
			}
		}
	}
	// order SSA loops by the source position of the header's first positioned instruction when possible
	for i, li := range fl.list {
		li.ordinal = i + 1
		// cells stored inside the loop
		seen := map[*ssa.Alloc]bool{}
		for b := range li.blocks {
			for _, in := range b.Instrs {
				if st, ok := in.(*ssa.Store); ok {
					if a := rootAlloc(st.Addr); a != nil && !seen[a] {
						seen[a] = true
						li.cells = append(li.cells, a)
					}
				}
			}
		}
		sort.Slice(li.cells, func(a, b int) bool { return li.cells[a].Pos() < li.cells[b].Pos() || (li.cells[a].Pos() == li.cells[b].Pos() && li.cells[a].Name() < li.cells[b].Name()) })
	}
	fl.n = len(fl.list)
	return fl
}

func rootAlloc(v ssa.Value) *ssa.Alloc {
	for i := 0; i < 16; i++ {
		switch x := v.(type) {
		case *ssa.Alloc:
			return x
		case *ssa.FieldAddr:
			v = x.X
		case *ssa.IndexAddr:
			// only arrays addressed through a pointer to the local array
			if _, ok := x.X.Type().Underlying().(*types.Pointer); ok {
				v = x.X
			} else {
				return nil
			}
		default:
			return nil
		}
	}
	return nil
}

func (w *World) cellFor(fn *ssa.Function, v *types.Var) *ssa.Alloc {
	m, ok := w.cells[fn]
	if !ok {
		m = map[token.Pos]*ssa.Alloc{}
		for _, b := range fn.Blocks {
			for _, in := range b.Instrs {
				if a, ok := in.(*ssa.Alloc); ok && a.Pos().IsValid() && a.Comment != "" {
					if _, dup := m[a.Pos()]; !dup {
						m[a.Pos()] = a
					}
				}
			}
		}
		w.cells[fn] = m
	}
	return m[v.Pos()]
}

// ---- contract files

var kwRe = regexp.MustCompile(`^(assume_requires|type_no_method|also_modifies|inline_call|func|extern|lemma|requires|ensures|modifies|invariant|decreases|loop|nopanic|pure|inline|opaque|trusted|property|ghost_set|at|const_global|ghost_global|may_panic)\b`)

func (w *World) parseContracts(p *packages.Package) error {
	for i, f := range p.Syntax {
		fname := p.CompiledGoFiles[i]
		if !strings.HasSuffix(fname, "verif_contracts.go") {
			continue
		}
		var cur *Contract
		curLoop := 0
		var last *rawClause
		for _, cg := range f.Comments {
			for _, cm := range cg.List {
				if !strings.HasPrefix(cm.Text, "//@") {
					continue
				}
				line := strings.TrimSpace(cm.Text[3:])
				if line == "" {
					continue
				}
				pos := w.fset.Position(cm.Pos())
				where := fmt.Sprintf("%s:%d", pos.Filename, pos.Line)
				m := kwRe.FindString(line)
				if m == "" {
					if last == nil {
						return fmt.Errorf("%s: continuation line without clause", where)
					}
					last.text += " " + line
					continue
				}
				rest := strings.TrimSpace(line[len(m):])
				switch m {
				case "type_no_method":
					// type_no_method <Type> <Method>... [property Cxx ...]: the method set of *Type must not contain them
					f := strings.Fields(rest)
					tc := &TypeCheck{Pkg: p, File: where}
					for i := 0; i < len(f); i++ {
						if f[i] == "property" {
							tc.Props = f[i+1:]
							break
						}
						if i == 0 {
							tc.Type = f[0]
						} else {
							tc.Methods = append(tc.Methods, f[i])
						}
					}
					w.typeChecks = append(w.typeChecks, tc)
					last = nil
					continue
				case "const_global":
					w.constGlobals[p.Types.Name()+"."+rest] = true
					last = nil
					continue
				case "ghost_global":
					w.ghostGlobals[p.Types.Name()+"."+rest] = true
					last = nil
					continue
				case "func", "lemma", "extern":
					cur = &Contract{Key: rest, Loops: map[int]*LoopContract{}, pkg: p, File: where}
					curLoop = 0
					if m == "lemma" {
						cur.IsLemma = true
					}
					if m == "extern" {
						parts := strings.Split(rest, " as ")
						if len(parts) != 2 {
							return fmt.Errorf("%s: extern needs `<callee> as <stub>`", where)
						}
						cur.IsExtern = true
						cur.ExternFor = strings.TrimSpace(parts[0])
						cur.Key = strings.TrimSpace(parts[1])
					}
					if err := w.bindContract(p, cur, where); err != nil {
						// the function the contract names no longer exists: remember it, keep loading the rest
						w.stale = append(w.stale, err.Error())
						cur.Stale = err.Error()
						cur.Fn = nil
					}
					last = nil
					continue
				}
				if cur == nil {
					return fmt.Errorf("%s: clause outside func block", where)
				}
				switch m {
				case "loop":
					n, err := strconv.Atoi(rest)
					if err != nil {
						return fmt.Errorf("%s: bad loop ordinal", where)
					}
					curLoop = n
					last = nil
				case "inline_call":
					// inline_call <callee-name> [unroll N]
					f := strings.Fields(rest)
					n := 0
					if len(f) == 3 && f[1] == "unroll" {
						n, _ = strconv.Atoi(f[2])
					}
					if cur.InlineCalls == nil {
						cur.InlineCalls = map[string]int{}
					}
					if len(f) > 0 {
						cur.InlineCalls[f[0]] = n
					}
					last = nil
				case "assume_requires":
					// assume_requires <callee-name>: the callee's preconditions are assumed at its call sites in this
					// function (data-level well-formedness supplied by another layer); listed as an assumption
					if cur.AssumeRequires == nil {
						cur.AssumeRequires = map[string]bool{}
					}
					for _, f := range strings.Fields(rest) {
						cur.AssumeRequires[f] = true
					}
					last = nil
				case "nopanic":
					cur.NoPanic = true
					for _, f := range strings.Fields(rest) {
						if cur.PanicKinds == nil {
							cur.PanicKinds = map[string]bool{}
						}
						cur.PanicKinds[f] = true
					}
					last = nil
				case "pure":
					cur.Pure = true
					last = nil
				case "inline":
					cur.Inline = true
					last = nil
				case "opaque":
					cur.Opaque = true
					last = nil
				case "may_panic":
					cur.MayPanic = true
					last = nil
				case "trusted":
					cur.Trusted = rest
					if rest == "" {
						cur.Trusted = "assumed"
					}
					last = nil
				case "property":
					cur.Props = append(cur.Props, strings.Fields(rest)...)
					last = nil
				default:
					cur.raw = append(cur.raw, rawClause{kw: m, text: rest, loop: curLoop, line: where})
					last = &cur.raw[len(cur.raw)-1]
				}
			}
		}
	}
	// elaborate
	for _, c := range w.byKeySorted() {
		if c.pkg != p {
			continue
		}
		if c.Fn == nil {
			continue
		}
		if err := w.elaborate(c); err != nil {
			c.Stale = err.Error()
			w.stale = append(w.stale, err.Error())
		}
	}
	return nil
}

func (w *World) byKeySorted() []*Contract {
	var ks []string
	for k := range w.byKey {
		ks = append(ks, k)
	}
	sort.Strings(ks)
	var out []*Contract
	for _, k := range ks {
		out = append(out, w.byKey[k])
	}
	return out
}

// externFor looks an extern contract up, preferring the one declared in the package of the function under proof
// (names such as "funcvalue:cb" are per package).
func (w *World) externFor(fn *ssa.Function, key string) *Contract {
	if fn != nil && fn.Pkg != nil && fn.Pkg.Pkg != nil {
		if c := w.externs[fn.Pkg.Pkg.Path()+"|"+key]; c != nil {
			return c
		}
	}
	return w.externs[key]
}

// stripTypeArgs removes every [...] group from a function name.
func stripTypeArgs(n string) string {
	var b strings.Builder
	depth := 0
	for _, r := range n {
		switch {
		case r == '[':
			depth++
		case r == ']':
			depth--
		case depth == 0:
			b.WriteRune(r)
		}
	}
	return b.String()
}

func (w *World) bindContract(p *packages.Package, c *Contract, where string) error {
	sp := w.prog.Package(p.Types)
	var found *ssa.Function
	for fn := range w.allFns {
		if fn.Pkg != sp || fn.Synthetic != "" {
			continue
		}
		if fn.RelString(p.Types) == c.Key {
			found = fn
			break
		}
	}
	if found == nil {
		// a method of a generic type may be named without its type-parameter list: (*SequenceTracker).Next
		for fn := range w.allFns {
			if fn.Pkg != sp || fn.Synthetic != "" || len(fn.TypeArgs()) != 0 {
				continue
			}
			if stripTypeArgs(fn.RelString(p.Types)) == stripTypeArgs(c.Key) && strings.Contains(fn.RelString(p.Types), "[") {
				found = fn
				break
			}
		}
	}
	if found == nil {
		// methods of generic types are only reachable through their instantiations: verify the generic body
		for fn := range w.allFns {
			o := fn.Origin()
			if o == nil || o.Pkg != sp || o.Blocks == nil {
				continue
			}
			if stripTypeArgs(o.RelString(p.Types)) == stripTypeArgs(c.Key) {
				found = o
				break
			}
		}
	}
	if found == nil {
		return fmt.Errorf("%s: contract stale: no function %q in package %s", where, c.Key, p.PkgPath)
	}
	c.Fn = found
	c.Short = c.Key
	full := p.Types.Name() + "." + c.Key
	if _, dup := w.byKey[full]; dup {
		return fmt.Errorf("%s: duplicate contract for %s", where, full)
	}
	w.byKey[full] = c
	if c.IsExtern {
		if prev, dup := w.externs[c.ExternFor]; dup && prev != c {
			// the same callee may be given contracts in several packages; they must be declared once per package load
			if prev.pkg == p {
				return fmt.Errorf("%s: duplicate extern for %s", where, c.ExternFor)
			}
		}
		w.externs[c.ExternFor] = c
		w.externs[p.PkgPath+"|"+c.ExternFor] = c
		c.Short = c.ExternFor
		if c.Trusted == "" {
			c.Trusted = "extern contract (assumed)"
		}
	} else {
		w.contracts[found] = c
	}
	return nil
}

func (w *World) elaborate(c *Contract) error {
	fn := c.Fn
	var bodyPos token.Pos
	switch s := fn.Syntax().(type) {
	case *ast.FuncDecl:
		if s.Body == nil {
			return fmt.Errorf("%s: function without body", c.File)
		}
		bodyPos = s.Body.Lbrace + 1
	case *ast.FuncLit:
		bodyPos = s.Body.Lbrace + 1
	default:
		return fmt.Errorf("%s: no syntax for %s", c.File, c.Key)
	}
	loops := w.loopsOf(fn)
	for _, rc := range c.raw {
		pos := bodyPos
		if rc.loop > 0 {
			if rc.loop > len(loops.list) {
				// the contract gives the N-th loop an invariant: its absence is a failed obligation of the function (the
				// code changed shape), not a broken check
				ms := fmt.Sprintf("loop%d.exists|the contract constrains loop %d of %s but the function has only %d loop(s)", rc.loop, rc.loop, c.Key, len(loops.list))
				dup := false
				for _, x := range c.MissingSites {
					if x == ms {
						dup = true
					}
				}
				if !dup {
					c.MissingSites = append(c.MissingSites, ms)
				}
				continue
			}
			li := loops.list[rc.loop-1]
			if !li.bodyPos.IsValid() {
				return fmt.Errorf("%s: cannot match loops of %s to source statements", rc.line, c.Key)
			}
			pos = li.bodyPos
		}
		mk := func(text string) (*Clause, error) {
			src, err := desugar(text, fn, c.pkg.Types)
			if err != nil {
				return nil, fmt.Errorf("%s: %v", rc.line, err)
			}
			expr, err := parser.ParseExprFrom(w.fset, rc.line, src, 0)
			if err != nil {
				return nil, fmt.Errorf("%s: contract stale: parse %q: %v", rc.line, src, err)
			}
			info := &types.Info{Types: map[ast.Expr]types.TypeAndValue{}, Uses: map[*ast.Ident]types.Object{}, Defs: map[*ast.Ident]types.Object{}, Selections: map[*ast.SelectorExpr]*types.Selection{}, Instances: map[*ast.Ident]types.Instance{}, Scopes: map[ast.Node]*types.Scope{}}
			if err := types.CheckExpr(w.fset, c.pkg.Types, pos, expr, info); err != nil {
				return nil, fmt.Errorf("%s: contract stale: %q does not type-check: %v", rc.line, text, err)
			}
			return &Clause{Text: text, Expr: expr, Info: info, Pos: pos, Line: rc.line}, nil
		}
		switch rc.kw {
		case "requires", "ensures", "invariant", "decreases":
			text := rc.text
			var uses []int
			if rc.kw == "invariant" && strings.HasPrefix(text, "uses(") {
				// invariant uses(1,2,5): expr
				j := strings.Index(text, "):")
				if j < 0 {
					return fmt.Errorf("%s: expected `uses(i,j,...): expr`", rc.line)
				}
				for _, f := range strings.Split(text[5:j], ",") {
					n, err := strconv.Atoi(strings.TrimSpace(f))
					if err != nil {
						return fmt.Errorf("%s: bad uses list", rc.line)
					}
					uses = append(uses, n)
				}
				if uses == nil {
					uses = []int{}
				}
				text = strings.TrimSpace(text[j+2:])
			}
			cl, err := mk(text)
			if err != nil {
				if rc.kw == "invariant" || rc.kw == "decreases" {
					// a loop invariant that no longer type-checks (e.g. it names a local that was removed) is
					// dropped: a weaker loop contract is sound, and the function's pre/postconditions - stated
					// over parameters and results only - still decide
					w.dropped = append(w.dropped, err.Error())
					c.DroppedInv = append(c.DroppedInv, err.Error())
					continue
				}
				return err
			}
			cl.Uses = uses
			switch rc.kw {
			case "requires":
				c.Requires = append(c.Requires, cl)
			case "ensures":
				c.Ensures = append(c.Ensures, cl)
			case "invariant", "decreases":
				if rc.loop == 0 {
					return fmt.Errorf("%s: %s outside loop block", rc.line, rc.kw)
				}
				lc := c.Loops[rc.loop]
				if lc == nil {
					lc = &LoopContract{}
					c.Loops[rc.loop] = lc
				}
				if rc.kw == "invariant" {
					lc.Invariants = append(lc.Invariants, cl)
				} else {
					lc.Decreases = cl
					if tv, ok := cl.Info.Types[cl.Expr]; ok {
						lc.DecSigned = isSigned(tv.Type) || isUntyped(tv.Type)
					}
				}
			}
		case "modifies", "also_modifies":
			// modifies: exact frame (checked when the function is verified). also_modifies: everything reachable
			// from the arguments may change (the default for calls) and additionally the listed (ghost) locations.
			if rc.kw == "modifies" {
				c.HasModifies = true
			} else {
				c.AlsoModifies = true
			}
			if strings.TrimSpace(rc.text) == "nothing" {
				continue
			}
			for _, part := range splitTop(rc.text, ',') {
				cl, err := mk(strings.TrimSpace(part))
				if err != nil {
					return err
				}
				cl.Exprs = []ast.Expr{cl.Expr}
				c.Modifies = append(c.Modifies, cl)
			}
		case "ghost_set":
			i := strings.Index(rc.text, "=")
			if i < 0 {
				return fmt.Errorf("%s: ghost_set needs lhs = rhs", rc.line)
			}
			lhs, err := mk(strings.TrimSpace(rc.text[:i]))
			if err != nil {
				return err
			}
			rhs, err := mk(strings.TrimSpace(rc.text[i+1:]))
			if err != nil {
				return err
			}
			rhs.Exprs = []ast.Expr{lhs.Expr}
			// share one info for both sides
			for k, v := range lhs.Info.Types {
				rhs.Info.Types[k] = v
			}
			for k, v := range lhs.Info.Uses {
				rhs.Info.Uses[k] = v
			}
			for k, v := range lhs.Info.Selections {
				rhs.Info.Selections[k] = v
			}
			c.GhostSets = append(c.GhostSets, &GhostSet{LHS: lhs.Expr, RHS: rhs})
		case "at":
			// at call <callee>: assert <expr>
			t := strings.TrimSpace(rc.text)
			if !strings.HasPrefix(t, "call ") {
				return fmt.Errorf("%s: expected `at call <callee>: assert <expr>`", rc.line)
			}
			t = t[5:]
			i := strings.Index(t, ": assert ")
			if i < 0 {
				return fmt.Errorf("%s: expected `at call <callee>: assert <expr>`", rc.line)
			}
			callee := strings.TrimSpace(t[:i])
			site := 0
			if j := strings.LastIndex(callee, "#"); j >= 0 {
				n, err := strconv.Atoi(callee[j+1:])
				if err != nil || n < 1 {
					return fmt.Errorf("%s: bad call-site ordinal in %q", rc.line, callee)
				}
				site, callee = n, callee[:j]
			}
			// the expression may mention the callee's formals: type-check in the callee contract scope later (dynamic)
			c.AtCalls = append(c.AtCalls, &AtCall{Callee: callee, Site: site, Expr: &Clause{Text: t[i+9:], Line: rc.line, Pos: pos}})
		}
	}
	return nil
}

// finishAtCalls type-checks call-site assertions. The expression is checked in the caller's scope;
// callee formals are not available (use the caller's own argument expressions instead).
func (w *World) finishAtCalls() error {
	for _, c := range w.byKeySorted() {
		for _, ac := range c.AtCalls {
			src, err := desugar(ac.Expr.Text, c.Fn, c.pkg.Types)
			if err != nil {
				return err
			}
			expr, err := parser.ParseExprFrom(w.fset, ac.Expr.Line, src, 0)
			if err != nil {
				return fmt.Errorf("%s: contract stale: %v", ac.Expr.Line, err)
			}
			info := &types.Info{Types: map[ast.Expr]types.TypeAndValue{}, Uses: map[*ast.Ident]types.Object{}, Defs: map[*ast.Ident]types.Object{}, Selections: map[*ast.SelectorExpr]*types.Selection{}, Instances: map[*ast.Ident]types.Instance{}}
			pos := ac.Expr.Pos
			// use the end of the function body so that all locals declared at the top level are in scope
			if fd, ok := c.Fn.Syntax().(*ast.FuncDecl); ok {
				pos = fd.Body.Rbrace - 1
			} else if fl, ok := c.Fn.Syntax().(*ast.FuncLit); ok {
				pos = fl.Body.Rbrace - 1
			}
			// prefer the position of the first call to that callee: block-scoped locals are then in scope
			if c.Fn != nil {
				short := ac.Callee
				if i := strings.LastIndex(short, "."); i >= 0 {
					short = short[i+1:]
				}
				var sites []token.Pos
				for _, b := range c.Fn.Blocks {
					for _, in := range b.Instrs {
						ci, ok := in.(ssa.CallInstruction)
						if !ok || !in.Pos().IsValid() {
							continue
						}
						cc := ci.Common()
						name := ""
						if f := cc.StaticCallee(); f != nil {
							name = f.String()
							if o := f.Origin(); o != nil {
								name = o.String() // an instantiation of a generic function is known by the generic's name
							}
						} else if cc.IsInvoke() {
							name = cc.Method.Name()
						} else {
							name = funcValueName(cc.Value)
						}
						if os.Getenv("GOVC_DEBUG_SITES") != "" {
							fmt.Fprintf(os.Stderr, "site-scan %s: call %q\n", c.Key, name)
						}
						if strings.HasPrefix(ac.Callee, "(") {
							// receiver-qualified: (*T).M or (T).M
							if shortRecv(name) == ac.Callee {
								sites = append(sites, in.Pos())
							}
							continue
						}
						if name == ac.Callee || strings.HasSuffix(name, "."+short) || name == short {
							sites = append(sites, in.Pos())
						}
					}
				}
				sort.Slice(sites, func(i, j int) bool { return sites[i] < sites[j] })
				if ac.Site > 0 {
					if ac.Site > len(sites) {
						// the contract demands an N-th call of the callee: its absence is a failed obligation of the
						// function (the code changed shape), not a broken check
						c.MissingSites = append(c.MissingSites, fmt.Sprintf("call.%s#%d.exists|the contract constrains call site #%d of %s (%s) but the function has only %d such call(s)", ac.Callee, ac.Site, ac.Site, ac.Callee, ac.Expr.Text, len(sites)))
						continue
					}
					ac.SitePos = sites[ac.Site-1]
					pos = ac.SitePos
				} else if len(sites) > 0 {
					pos = sites[0]
				}
			}
			if err := types.CheckExpr(w.fset, c.pkg.Types, pos, expr, info); err != nil {
				c.Stale = fmt.Sprintf("%s: contract stale: %q does not type-check: %v", ac.Expr.Line, ac.Expr.Text, err)
				w.stale = append(w.stale, c.Stale)
				continue
			}
			ac.Expr.Expr = expr
			ac.Expr.Info = info
		}
	}
	return nil
}

// funcValueName names a called function value by the source variable it was loaded from (parameter or local).
func funcValueName(v ssa.Value) string {
	switch x := v.(type) {
	case *ssa.Parameter:
		return x.Name()
	case *ssa.UnOp:
		if a, ok := x.X.(*ssa.Alloc); ok {
			return a.Comment
		}
		if fa, ok := x.X.(*ssa.FieldAddr); ok {
			if st, ok := fa.X.Type().Underlying().(*types.Pointer); ok {
				if str, ok := st.Elem().Underlying().(*types.Struct); ok {
					return str.Field(fa.Field).Name()
				}
			}
		}
	case *ssa.FreeVar:
		return x.Name()
	}
	return ""
}

func splitTop(s string, sep byte) []string {
	var out []string
	depth := 0
	start := 0
	for i := 0; i < len(s); i++ {
		switch s[i] {
		case '(', '[', '{':
			depth++
		case ')', ']', '}':
			depth--
		default:
			if s[i] == sep && depth == 0 {
				out = append(out, s[start:i])
				start = i + 1
			}
		}
	}
	out = append(out, s[start:])
	return out
}

// ---- sugar: forall/exists, ==>, old(), result

func isIdentChar(b byte) bool {
	return b == '_' || b >= 'a' && b <= 'z' || b >= 'A' && b <= 'Z' || b >= '0' && b <= '9'
}

func desugar(text string, fn *ssa.Function, pkg *types.Package) (string, error) {
	s, err := rewriteLogic(text)
	if err != nil {
		return "", err
	}
	// old( -> verif_old(
	var b strings.Builder
	for i := 0; i < len(s); {
		if strings.HasPrefix(s[i:], "loopold(") && (i == 0 || !isIdentChar(s[i-1]) && s[i-1] != '.') {
			b.WriteString("verif_loopold(")
			i += 8
			continue
		}
		if strings.HasPrefix(s[i:], "old(") && (i == 0 || !isIdentChar(s[i-1]) && s[i-1] != '.') {
			b.WriteString("verif_old(")
			i += 4
			continue
		}
		if strings.HasPrefix(s[i:], "arg") && (i == 0 || !isIdentChar(s[i-1]) && s[i-1] != '.') {
			// argN:T  ->  verif_arg[T](N)
			j := i + 3
			k := j
			for k < len(s) && s[k] >= '0' && s[k] <= '9' {
				k++
			}
			if k > j && k < len(s) && s[k] == ':' {
				m := k + 1
				for m < len(s) && (isIdentChar(s[m]) || s[m] == '.' || s[m] == '[' || s[m] == ']' || s[m] == '*') {
					m++
				}
				fmt.Fprintf(&b, "verif_arg[%s](%s)", s[k+1:m], s[j:k])
				i = m
				continue
			}
		}
		if strings.HasPrefix(s[i:], "rangeidx") && (i == 0 || !isIdentChar(s[i-1]) && s[i-1] != '.') && (i+8 == len(s) || !isIdentChar(s[i+8])) {
			b.WriteString("verif_rangeidx()")
			i += 8
			continue
		}
		if strings.HasPrefix(s[i:], "result") && (i == 0 || !isIdentChar(s[i-1]) && s[i-1] != '.') {
			j := i + 6
			k := j
			for k < len(s) && s[k] >= '0' && s[k] <= '9' {
				k++
			}
			if k == len(s) || !isIdentChar(s[k]) {
				idx := 0
				if k > j {
					idx, _ = strconv.Atoi(s[j:k])
				}
				res := fn.Signature.Results()
				if idx >= res.Len() {
					return "", fmt.Errorf("contract stale: result%d but function has %d results", idx, res.Len())
				}
				ts := types.TypeString(res.At(idx).Type(), func(p *types.Package) string {
					if p == pkg {
						return ""
					}
					return p.Name()
				})
				fmt.Fprintf(&b, "verif_res[%s](%d)", ts, idx)
				i = k
				continue
			}
		}
		b.WriteByte(s[i])
		i++
	}
	return b.String(), nil
}

func rewriteLogic(s string) (string, error) {
	s = strings.TrimSpace(s)
	depth := 0
	for i := 0; i < len(s); i++ {
		ch := s[i]
		switch ch {
		case '(', '[', '{':
			depth++
			continue
		case ')', ']', '}':
			depth--
			continue
		case '"':
			j := i + 1
			for j < len(s) && s[j] != '"' {
				if s[j] == '\\' {
					j++
				}
				j++
			}
			i = j
			continue
		case '\'':
			j := i + 1
			for j < len(s) && s[j] != '\'' {
				if s[j] == '\\' {
					j++
				}
				j++
			}
			i = j
			continue
		}
		if depth != 0 {
			continue
		}
		if strings.HasPrefix(s[i:], "==>") {
			l, err := rewriteLogic(s[:i])
			if err != nil {
				return "", err
			}
			r, err := rewriteLogic(s[i+3:])
			if err != nil {
				return "", err
			}
			return "verif_implies(" + l + ", " + r + ")", nil
		}
		for _, kw := range []string{"forall ", "exists "} {
			if strings.HasPrefix(s[i:], kw) && (i == 0 || !isIdentChar(s[i-1])) {
				// forall k in lo..hi: body
				rest := s[i+len(kw):]
				inIdx := strings.Index(rest, " in ")
				if inIdx < 0 {
					return "", fmt.Errorf("bad quantifier syntax in %q", s)
				}
				v := strings.TrimSpace(rest[:inIdx])
				rest = rest[inIdx+4:]
				dd := topIndex(rest, "..")
				if dd < 0 {
					return "", fmt.Errorf("bad quantifier range in %q", s)
				}
				lo := rest[:dd]
				rest = rest[dd+2:]
				col := topIndex(rest, ":")
				if col < 0 {
					return "", fmt.Errorf("bad quantifier body in %q", s)
				}
				hi := rest[:col]
				body, err := rewriteLogic(rest[col+1:])
				if err != nil {
					return "", err
				}
				pre, err := rewriteInner(s[:i])
				if err != nil {
					return "", err
				}
				lo2, err := rewriteInner(lo)
				if err != nil {
					return "", err
				}
				hi2, err := rewriteInner(hi)
				if err != nil {
					return "", err
				}
				name := "verif_forall"
				if kw == "exists " {
					name = "verif_exists"
				}
				return fmt.Sprintf("%s%s(int(%s), int(%s), func(%s int) bool { return %s })", pre, name, lo2, hi2, v, body), nil
			}
		}
	}
	return rewriteInner(s)
}

// rewriteInner rewrites the contents of parenthesised groups.
func rewriteInner(s string) (string, error) {
	var b strings.Builder
	for i := 0; i < len(s); i++ {
		ch := s[i]
		if ch == '"' {
			j := i + 1
			for j < len(s) && s[j] != '"' {
				if s[j] == '\\' {
					j++
				}
				j++
			}
			if j >= len(s) {
				j = len(s) - 1
			}
			b.WriteString(s[i : j+1])
			i = j
			continue
		}
		if ch == '(' {
			// find matching paren
			depth := 0
			j := i
			for ; j < len(s); j++ {
				if s[j] == '(' {
					depth++
				} else if s[j] == ')' {
					depth--
					if depth == 0 {
						break
					}
				}
			}
			if j >= len(s) {
				return "", fmt.Errorf("unbalanced parentheses in %q", s)
			}
			inner := s[i+1 : j]
			var parts []string
			for _, p := range splitTop(inner, ',') {
				r, err := rewriteLogic(p)
				if err != nil {
					return "", err
				}
				parts = append(parts, r)
			}
			b.WriteByte('(')
			b.WriteString(strings.Join(parts, ", "))
			b.WriteByte(')')
			i = j
			continue
		}
		b.WriteByte(ch)
	}
	return b.String(), nil
}

func topIndex(s, sep string) int {
	depth := 0
	for i := 0; i < len(s); i++ {
		switch s[i] {
		case '(', '[', '{':
			depth++
		case ')', ']', '}':
			depth--
		default:
			if depth == 0 && strings.HasPrefix(s[i:], sep) {
				return i
			}
		}
	}
	return -1
}

// globalHasInit reports whether the package initialiser stores a value into g.
func (w *World) globalHasInit(g *ssa.Global) bool {
	init := g.Pkg.Func("init")
	if init == nil {
		return false
	}
	for _, b := range init.Blocks {
		for _, in := range b.Instrs {
			if st, ok := in.(*ssa.Store); ok && st.Addr == ssa.Value(g) {
				return true
			}
		}
	}
	return false
}

// globalInitNonNil reports whether g is stable and its initialiser stores a freshly constructed (non-nil) value.
func (w *World) globalInitNonNil(g *ssa.Global) bool {
	if !w.globalStable(g) {
		return false
	}
	init := g.Pkg.Func("init")
	if init == nil || len(init.Blocks) == 0 {
		// package known from export data only: exported sentinel errors (io.EOF, fslock.ErrTimeout, ...) are non-nil
		n := g.Name()
		return strings.HasPrefix(n, "Err") || n == "EOF"
	}
	for _, b := range init.Blocks {
		for _, in := range b.Instrs {
			st, ok := in.(*ssa.Store)
			if !ok || st.Addr != ssa.Value(g) {
				continue
			}
			switch v := st.Val.(type) {
			case *ssa.MakeInterface:
				return true
			case *ssa.Call:
				if f := v.Call.StaticCallee(); f != nil {
					switch f.String() {
					case "errors.New", "fmt.Errorf":
						return true
					}
				}
			}
		}
	}
	return false
}

// checkTypes evaluates the method-set contracts of a property.
func (w *World) checkTypes(prop string) []*Obligation {
	var out []*Obligation
	for _, tc := range w.typeChecks {
		has := false
		for _, p := range tc.Props {
			if p == prop {
				has = true
			}
		}
		if !has {
			continue
		}
		obj := tc.Pkg.Types.Scope().Lookup(tc.Type)
		for _, m := range tc.Methods {
			o := &Obligation{Name: tc.Pkg.Types.Name() + "." + tc.Type + "#methodset." + m, Kind: "methodset." + m, Fn: tc.Pkg.Types.Name() + "." + tc.Type, Pos: tc.File, Goal: "method set of *" + tc.Type + " does not contain " + m}
			if obj == nil {
				o.Status, o.Model = "stale", "type "+tc.Type+" not found"
			} else {
				ms := types.NewMethodSet(types.NewPointer(obj.Type()))
				if sel := ms.Lookup(tc.Pkg.Types, m); sel != nil || ms.Lookup(nil, m) != nil {
					o.Status, o.Solver = "sat", "go/types"
					o.Model = "the method set of *" + tc.Type + " contains " + m + " (declared or promoted from an embedded field): callers that type-assert for it bypass the contract-carrying method"
				} else {
					o.Status, o.Solver, o.Trivial = "unsat", "go/types", true
				}
			}
			out = append(out, o)
		}
	}
	return out
}

// constArrayInit recovers the initial contents of a package-level array variable whose initialiser is a composite
// literal of constants: init builds it in a local array (stores of constants at constant indices) and copies it
// into the global. Returns index -> constant, and whether the pattern was recognised.
// scalarInitStore finds the value the package initialiser stores into the scalar global g (nil when there is none or
// more than one).
func (w *World) scalarInitStore(g *ssa.Global) ssa.Value {
	init := g.Pkg.Func("init")
	if init == nil {
		return nil
	}
	var val ssa.Value
	n := 0
	for _, b := range init.Blocks {
		for _, in := range b.Instrs {
			if st, ok := in.(*ssa.Store); ok && st.Addr == ssa.Value(g) {
				val = st.Val
				n++
			}
		}
	}
	if n != 1 {
		return nil
	}
	return val
}

func (w *World) constArrayInit(g *ssa.Global) (map[int64]*ssa.Const, bool) {
	init := g.Pkg.Func("init")
	if init == nil {
		return nil, false
	}
	for _, b := range init.Blocks {
		for _, in := range b.Instrs {
			st, ok := in.(*ssa.Store)
			if !ok || st.Addr != ssa.Value(g) {
				continue
			}
			ld, ok := st.Val.(*ssa.UnOp)
			if !ok || ld.Op != token.MUL {
				return nil, false
			}
			al, ok := ld.X.(*ssa.Alloc)
			if !ok {
				return nil, false
			}
			out := map[int64]*ssa.Const{}
			for _, b2 := range init.Blocks {
				for _, in2 := range b2.Instrs {
					st2, ok := in2.(*ssa.Store)
					if !ok {
						continue
					}
					ia, ok := st2.Addr.(*ssa.IndexAddr)
					if !ok || ia.X != ssa.Value(al) {
						continue
					}
					k, ok1 := ia.Index.(*ssa.Const)
					v, ok2 := st2.Val.(*ssa.Const)
					if !ok1 || !ok2 {
						return nil, false
					}
					out[k.Int64()] = v
				}
			}
			return out, true
		}
	}
	return nil, false
}

// shortRecv turns the full name of a method, "(*pkg/path.T).M", into "(*T).M"; other names are returned unchanged.
func shortRecv(full string) string {
	if !strings.HasPrefix(full, "(") {
		return full
	}
	end := strings.Index(full, ")")
	if end < 0 {
		return full
	}
	recv := full[1:end]
	star := ""
	if strings.HasPrefix(recv, "*") {
		star, recv = "*", recv[1:]
	}
	if i := strings.LastIndex(recv, "."); i >= 0 {
		recv = recv[i+1:]
	}
	return "(" + star + recv + ")" + full[end+1:]
}
