package main

import (
	"encoding/json"
	"flag"
	"fmt"
	"os"
	"path/filepath"
	"regexp"
	"sort"
	"strconv"
	"strings"
	"time"
)

type PropCfg struct {
	Packages []string `json:"packages"`
	Note     string   `json:"note"`
	Mode     string   `json:"mode"`
	Bounded  []string `json:"bounded"`
}

type KnownFinding struct {
	Property   string `json:"property"`
	Obligation string `json:"obligation"`
	Function   string `json:"function"`
	What       string `json:"what"`
	Status     string `json:"status"`
	Commit     string `json:"commit,omitempty"`
}

var verifRoot = "/verif"
var outRoot = ""

type overlayFlag []string

func (o *overlayFlag) String() string     { return strings.Join(*o, ",") }
func (o *overlayFlag) Set(v string) error { *o = append(*o, v); return nil }
func (o *overlayFlag) m() map[string][]byte {
	if len(*o) == 0 {
		return nil
	}
	m := map[string][]byte{}
	for _, kv := range *o {
		i := strings.Index(kv, "=")
		if i < 0 {
			continue
		}
		b, err := os.ReadFile(kv[i+1:])
		if err != nil {
			fmt.Fprintln(os.Stderr, "overlay:", err)
			os.Exit(2)
		}
		m[kv[:i]] = b
	}
	return m
}

func outDir() string {
	if outRoot != "" {
		return outRoot
	}
	return verifRoot
}
var repoGo = "/repo/go"

func main() {
	if len(os.Args) < 2 {
		fmt.Fprintln(os.Stderr, "usage: govc check <PROP> [--tier quick|thorough] | govc fn <pkg> <func-key> | govc list <PROP>")
		os.Exit(2)
	}
	if v := os.Getenv("VERIF_ROOT"); v != "" {
		verifRoot = v
	}
	if v := os.Getenv("VERIF_REPO_GO"); v != "" {
		repoGo = v
	}
	switch os.Args[1] {
	case "check":
		os.Exit(cmdCheck(os.Args[2:]))
	case "fn":
		os.Exit(cmdFn(os.Args[2:]))
	case "replay":
		os.Exit(cmdReplay(os.Args[2:]))
	case "loops":
		// govc loops <pkgs> <func-substring>: list the loops of matching functions (ordinals as used by contracts)
		w, err := loadWorld(repoGo, strings.Split(os.Args[2], ","), nil)
		if err != nil {
			fmt.Fprintln(os.Stderr, err)
			os.Exit(2)
		}
		for fn := range w.allFns {
			if fn.Pkg == nil || fn.Blocks == nil || !strings.Contains(fnKey(fn), os.Args[3]) {
				continue
			}
			fl := w.loopsOf(fn)
			for _, li := range fl.list {
				fmt.Printf("%s loop %d header=%q block=%d matched=%v at %s\n", fnKey(fn), li.ordinal, li.header.Comment, li.header.Index, li.bodyPos.IsValid(), w.fset.Position(li.bodyPos))
			}
		}
		os.Exit(0)
	default:
		fmt.Fprintln(os.Stderr, "unknown command")
		os.Exit(2)
	}
}

func loadProps() (map[string]*PropCfg, error) {
	b, err := os.ReadFile(filepath.Join(verifRoot, "props.json"))
	if err != nil {
		return nil, err
	}
	m := map[string]*PropCfg{}
	if err := json.Unmarshal(b, &m); err != nil {
		return nil, err
	}
	return m, nil
}

func loadKnown() []KnownFinding {
	b, err := os.ReadFile(filepath.Join(verifRoot, "known_findings.json"))
	if err != nil {
		return nil
	}
	var ks []KnownFinding
	_ = json.Unmarshal(b, &ks)
	return ks
}

func cmdFn(args []string) int {
	fs := flag.NewFlagSet("fn", flag.ExitOnError)
	timeout := fs.Int("timeout", 10, "solver timeout (s)")
	keep := fs.String("keep", "", "directory to keep SMT files")
	var ov overlayFlag
	fs.Var(&ov, "overlay", "file=replacement (repeatable): verify with the file's contents replaced")
	verbose := fs.Bool("v", false, "verbose")
	_ = fs.Parse(args)
	rest := fs.Args()
	if len(rest) < 2 {
		fmt.Fprintln(os.Stderr, "usage: govc fn [flags] <pkg-pattern>[,<pkg>...] <func-key-substring>...")
		return 2
	}
	w, err := loadWorld(repoGo, strings.Split(rest[0], ","), ov.m())
	if err != nil {
		fmt.Fprintln(os.Stderr, "load:", err)
		return 2
	}
	if err := w.finishAtCalls(); err != nil {
		fmt.Fprintln(os.Stderr, err)
		return 2
	}
	scratch := *keep
	if scratch == "" {
		scratch, _ = os.MkdirTemp("/var/tmp", "verif-govc-")
		defer os.RemoveAll(scratch)
	} else {
		_ = os.MkdirAll(scratch, 0o755)
	}
	bad := 0
	for _, m := range w.stale {
		fmt.Println("STALE:", m)
	}
	for _, c := range w.byKeySorted() {
		if c.IsExtern || c.Stale != "" || c.Fn == nil {
			continue
		}
		match := false
		for _, pat := range rest[1:] {
			if strings.Contains(c.pkg.Types.Name()+"."+c.Key, pat) {
				match = true
			}
		}
		if !match {
			continue
		}
		t0 := time.Now()
		r := verifyFunction(w, c)
		gen := time.Since(t0)
		st := discharge(r.Obls, scratch, *timeout, false)
		fmt.Printf("== %s: %d obligations, %d paths, %d restarts, gen %.2fs, solve %.2fs (%d queries)\n", r.Key, len(r.Obls), r.Paths, r.Restarts, gen.Seconds(), st.secs, st.queries)
		for _, e := range r.Errs {
			fmt.Println("   ERROR:", e)
			bad++
		}
		for _, o := range r.Obls {
			ok := (o.Status == "unsat" && !o.Probe) || (o.Probe && o.Status == "sat")
			if !ok {
				bad++
			}
			if *verbose || !ok {
				mark := "ok  "
				if !ok {
					mark = "FAIL"
				}
				fmt.Printf("   %s %-60s %-8s %-10s %.2fs %s\n", mark, o.Name, o.Status, o.Solver, o.Secs, o.Pos)
				if !ok && *verbose {
					for _, t := range o.Trace {
						fmt.Println("        |", t)
					}
					fmt.Println("        goal:", trunc(o.Goal, 300))
					if o.Model != "" {
						fmt.Println("        model:", trunc(o.Model, 1500))
					}
				}
			}
		}
		if *verbose {
			for _, a := range r.Assumptions {
				fmt.Println("   assume:", a)
			}
		}
	}
	if bad > 0 {
		return 1
	}
	return 0
}

func trunc(s string, n int) string {
	if len(s) > n {
		return s[:n] + "..."
	}
	return s
}

var ordRe = regexp.MustCompile(`\.\d+`)

func cmdCheck(args []string) int {
	if len(args) < 1 {
		fmt.Fprintln(os.Stderr, "usage: govc check <PROP> [--tier quick|thorough]")
		return 2
	}
	prop := args[0]
	fs := flag.NewFlagSet("check", flag.ExitOnError)
	tier := fs.String("tier", "quick", "quick|thorough")
	var ov overlayFlag
	fs.Var(&ov, "overlay", "file=replacement (repeatable): verify with the file's contents replaced (selftest only)")
	evDir := fs.String("evidence-dir", "", "write evidence/replays below this directory instead of /verif (selftest only)")
	_ = fs.Parse(args[1:])
	if *evDir != "" {
		outRoot = *evDir
	}
	if v := os.Getenv("VERIF_TIER"); v != "" && *tier == "" {
		*tier = v
	}
	seed := 0
	if v := os.Getenv("VERIF_SEED"); v != "" {
		seed, _ = strconv.Atoi(v)
	}
	start := time.Now()
	props, err := loadProps()
	if err != nil {
		fmt.Fprintln(os.Stderr, "props.json:", err)
		return 2
	}
	cfg := props[prop]
	if cfg == nil {
		fmt.Fprintln(os.Stderr, "unknown property", prop)
		return 2
	}
	w, err := loadWorld(repoGo, cfg.Packages, ov.m())
	if err != nil {
		fmt.Fprintln(os.Stderr, "CHECK BROKEN (load / stale contract):", err)
		return 2
	}
	if err := w.finishAtCalls(); err != nil {
		fmt.Fprintln(os.Stderr, "CHECK BROKEN:", err)
		return 2
	}
	scratch, _ := os.MkdirTemp("/var/tmp", "verif-govc-")
	defer os.RemoveAll(scratch)
	timeout := 10
	if *tier == "thorough" {
		timeout = 60
	}
	var results []*FuncResult
	var all []*Obligation
	var trustedList []string
	var staleMsgs []string
	for _, c := range w.byKeySorted() {
		has := false
		for _, p := range c.Props {
			if p == prop {
				has = true
			}
		}
		if !has {
			continue
		}
		if c.Stale != "" {
			staleMsgs = append(staleMsgs, c.Stale)
			continue
		}
		if c.IsExtern || c.Trusted != "" {
			trustedList = append(trustedList, fmt.Sprintf("%s: %s", c.Short, c.Trusted))
			continue
		}
		r := verifyFunction(w, c)
		for _, d := range c.DroppedInv {
			fmt.Println("NOTE: loop invariant dropped (no longer type-checks):", d)
		}
		results = append(results, r)
		all = append(all, r.Obls...)
	}
	if tobs := w.checkTypes(prop); len(tobs) > 0 {
		results = append(results, &FuncResult{Key: "type method sets", Obls: tobs})
	}
	if len(results) == 0 {
		fmt.Fprintln(os.Stderr, "CHECK BROKEN: no function under contract for", prop)
		return 2
	}
	st := discharge(all, scratch, timeout, *tier == "thorough")
	known := loadKnown()
	replayDir := filepath.Join(outDir(), "replays", prop)
	_ = os.RemoveAll(replayDir)
	violations := 0
	broken := 0
	nObl, nDis := 0, 0
	var samples []interface{}
	var knownList []string
	var fnSummaries []interface{}
	assume := map[string]bool{}
	usedExterns := map[string]bool{}
	for _, r := range results {
		kinds := map[string]int{}
		dis := 0
		total := 0
		retSat := 0
		retProbes := 0
		var failing []*Obligation
		probeSat := map[string]*[2]int{}
		for _, o := range r.Obls {
			if o.Probe {
				if strings.Contains(o.Kind, "reach.ret") {
					retProbes++
					if o.Status == "sat" || o.Status == "unknown" || o.Status == "timeout" {
						retSat++
					}
				} else {
					// pre-sat and per-loop invariant probes: at least one path to the probe point must be satisfiable
					pr := probeSat[o.Name]
					if pr == nil {
						pr = &[2]int{}
						probeSat[o.Name] = pr
					}
					pr[0]++
					if o.Status != "unsat" {
						pr[1]++
					}
				}
				continue
			}
			total++
			kinds[ordRe.ReplaceAllString(strings.SplitN(o.Kind, ":", 2)[0], "")]++
			if o.Status == "unsat" {
				dis++
				continue
			}
			if o.Status == "disagree" {
				fmt.Printf("CHECK BROKEN: solvers disagree on %s\n", o.Name)
				broken++
				continue
			}
			failing = append(failing, o)
		}
		for name, pr := range probeSat {
			if pr[0] > 0 && pr[1] == 0 {
				fmt.Printf("CHECK BROKEN: vacuity probe %s is unsatisfiable on every path (contradictory precondition or invariant)\n", name)
				broken++
			}
		}
		if retProbes > 0 && retSat == 0 {
			failing = append(failing, &Obligation{Name: r.Key + "#reach.ret", Kind: "reach.ret", Fn: r.Key, Status: "unsat", Model: "no return of the function is reachable under its precondition: every postcondition holds vacuously"})
			total++
		}
		if r.Fn != nil {
			if con := w.contractFor(r.Fn); con != nil {
				for _, ms := range con.MissingSites {
					parts := strings.SplitN(ms, "|", 2)
					failing = append(failing, &Obligation{Name: r.Key + "#" + parts[0], Kind: "call.exists", Fn: r.Key, Status: "absent", Model: parts[1]})
					total++
				}
			}
		}
		for _, em := range r.Errs {
			failing = append(failing, &Obligation{Name: r.Key + "#in-subset", Kind: "in-subset", Fn: r.Key, Status: "out-of-reach", Model: em})
			total++
		}
		nObl += total
		nDis += dis
		// group failing obligations by name
		seen := map[string]bool{}
		for _, o := range failing {
			if seen[o.Name] {
				if matchKnown(known, prop, o.Name) != nil {
					nObl-- // a further path on which the same recorded finding fails: not an obligation of the proof either
				}
				continue
			}
			seen[o.Name] = true
			if kf := matchKnown(known, prop, o.Name); kf != nil {
				fmt.Printf("KNOWN-FINDING: property=%s %s [%s]\n", prop, kf.What, o.Name)
				// a recorded finding is reported, not claimed: it is neither an obligation of the proof nor discharged
				nObl--
				knownList = append(knownList, o.Name)
				continue
			}
			violations++
			if o.Status == "sat" && r.exec != nil && violations <= 6 {
				r.exec.replayObligation(o, scratch, ov.pairs())
			}
			path := writeReplay(replayDir, prop, o, w)
			suffix := ""
			if !replayHasInput(o) {
				suffix = " no-failing-input-found"
			}
			fmt.Printf("VIOLATION property=%s replay=%s obligation=%s status=%s%s\n", prop, path, o.Name, o.Status, suffix)
		}
		for _, a := range r.Assumptions {
			assume[a] = true
		}
		fnSummaries = append(fnSummaries, map[string]interface{}{
			"function": r.Key, "obligations": total, "discharged": dis, "by_kind": kinds, "paths": r.Paths,
		})
		for i, o := range r.Obls {
			if !o.Probe && o.Status == "unsat" && !o.Trivial && len(samples) < 6 && i%7 == 0 {
				samples = append(samples, map[string]interface{}{"obligation": o.Name, "at": o.Pos, "goal": trunc(o.Goal, 400), "solver": o.Solver, "seconds": o.Secs})
			}
		}
	}
	if len(samples) == 0 {
		for _, o := range all {
			if !o.Probe && o.Status == "unsat" {
				samples = append(samples, map[string]interface{}{"obligation": o.Name, "at": o.Pos, "goal": trunc(o.Goal, 400), "solver": o.Solver})
				break
			}
		}
	}
	_ = usedExterns
	var assumptions []string
	for a := range assume {
		assumptions = append(assumptions, a)
	}
	sort.Strings(assumptions)
	for _, t := range trustedList {
		assumptions = append(assumptions, "assumed contract: "+t)
	}
	for _, ext := range w.externKeys() {
		assumptions = append(assumptions, "extern contract (assumed, not verified): "+ext)
	}
	assumptions = append(assumptions,
		"machine integers are exact bit-vectors (no mathematical-integer abstraction)",
		"slice capacities are at most 2^48 (address-space bound)",
		"go/packages + go/types + go/ssa (x/tools v0.50.0) render the source faithfully; the engine's encoding of SSA instructions is trusted",
	)
	if cfg.Note != "" {
		assumptions = append(assumptions, cfg.Note)
	}
	ev := map[string]interface{}{
		"property_id": prop, "tier": *tier, "seed": seed, "level": "proof",
		"coverage": map[string]interface{}{
			"obligations": nObl, "discharged": nDis,
			"checker_cmd":  "bin/govc check " + prop + " --tier " + *tier,
			"trusted_base": []string{"go/ssa (x/tools v0.50.0)", "govc VC generator (this repository)", "z3 4.8.12", "z3 5.1.0 (z3-new)", "cvc5 1.0"},
			"functions_under_contract": fnSummaries,
			"discharged_by_backend":    st.bySolver,
			"solver_seconds":           st.secs,
			"smt_queries":              st.queries,
			"samples":                  samples,
			"bounded":                  cfg.Bounded,
			"known_findings_not_claimed": knownList,
		},
		"assumptions": assumptions,
		"wall_s":      time.Since(start).Seconds(),
		"violations":  violations,
	}
	_ = os.MkdirAll(filepath.Join(outDir(), "evidence"), 0o755)
	b, _ := json.MarshalIndent(ev, "", " ")
	_ = os.WriteFile(filepath.Join(outDir(), "evidence", prop+".json"), b, 0o644)
	fmt.Printf("%s: %d functions, %d obligations, %d discharged, %d violations, %.1fs\n", prop, len(results), nObl, nDis, violations, time.Since(start).Seconds())
	if violations > 0 {
		return 1
	}
	for _, m := range staleMsgs {
		fmt.Println("CHECK BROKEN (contract stale):", m)
		broken++
	}
	if broken > 0 {
		return 2
	}
	if nObl == 0 {
		fmt.Println("CHECK BROKEN: zero obligations")
		return 2
	}
	return 0
}

func (w *World) externKeys() []string {
	var out []string
	for k := range w.externs {
		if strings.Contains(k, "|") {
			continue
		}
		out = append(out, k)
	}
	sort.Strings(out)
	return out
}

// normObl drops the instruction rank from a call-site obligation name ("#call.101:Update.assert.1" ->
// "#call:Update.assert.1"): the rank shifts when unrelated code in the same function is edited, the callee and the
// assertion ordinal do not. A known finding is thereby keyed by function, callee and clause.
var callRankRe = regexp.MustCompile(`#call\.\d+:`)

func normObl(n string) string { return callRankRe.ReplaceAllString(n, "#call:") }

func matchKnown(ks []KnownFinding, prop, name string) *KnownFinding {
	for i := range ks {
		if ks[i].Property == prop && ks[i].Status == "known" && normObl(ks[i].Obligation) == normObl(name) {
			return &ks[i]
		}
	}
	return nil
}

func (o overlayFlag) pairs() map[string]string {
	m := map[string]string{}
	for _, kv := range o {
		if i := strings.Index(kv, "="); i > 0 {
			m[kv[:i]] = kv[i+1:]
		}
	}
	return m
}

func replayHasInput(o *Obligation) bool {
	return o.Replayed
}

func writeReplay(dir, prop string, o *Obligation, w *World) string {
	_ = os.MkdirAll(dir, 0o755)
	name := sanitize(o.Name)
	path := filepath.Join(dir, name+".json")
	rec := map[string]interface{}{
		"property": prop, "obligation": o.Name, "function": o.Fn, "at": o.Pos,
		"status": o.Status, "solver": o.Solver, "goal": o.Goal, "path": o.Trace,
		"solver_output_or_model": o.Model,
		"replay":                 o.ReplayNote,
		"replay_test_source":     o.ReplaySrc,
	}
	if len(o.SMT) < 400000 {
		rec["smt"] = o.SMT
	}
	b, _ := json.MarshalIndent(rec, "", " ")
	_ = os.WriteFile(path, b, 0o644)
	return path
}

func cmdReplay(args []string) int {
	if len(args) < 1 {
		return 2
	}
	b, err := os.ReadFile(args[0])
	if err != nil {
		fmt.Fprintln(os.Stderr, err)
		return 2
	}
	os.Stdout.Write(b)
	return 0
}
