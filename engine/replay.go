package main

// Replay of solver counterexamples against the real code: the model's parameter values are turned
// into an in-package Go test (injected with `go test -overlay`, nothing is written to /repo) which
// calls the real function and evaluates the same contract text concretely.

import (
	"bytes"
	"context"
	"encoding/json"
	"fmt"
	"go/types"
	"os"
	"os/exec"
	"path/filepath"
	"regexp"
	"sort"
	"strconv"
	"strings"
	"time"
)

const modPrefix = "github.com/dolthub/dolt/go/"

type replayer struct {
	e       *Exec
	o       *Obligation
	scratch string
	vals    map[string]string // term string -> SMT value
	imports map[string]string // path -> name
	pkg     *types.Package
	depth   int
	helperPtr bool
}

// ---- minimal s-expression reader for (get-value ...) output

func readSexp(s string, i int) (string, int) {
	for i < len(s) && (s[i] == ' ' || s[i] == '\n' || s[i] == '\t' || s[i] == '\r') {
		i++
	}
	if i >= len(s) {
		return "", i
	}
	j := skipSexp(s, i)
	return s[i:j], j
}

func parseGetValue(out string) map[string]string {
	m := map[string]string{}
	i := strings.Index(out, "((")
	if i < 0 {
		return m
	}
	i++ // inside outer list
	for i < len(out) {
		for i < len(out) && (out[i] == ' ' || out[i] == '\n' || out[i] == '\t' || out[i] == '\r') {
			i++
		}
		if i >= len(out) || out[i] != '(' {
			break
		}
		i++
		var k, v string
		k, i = readSexp(out, i)
		v, i = readSexp(out, i)
		for i < len(out) && out[i] != ')' {
			i++
		}
		i++
		m[normSexp(k)] = strings.TrimSpace(v)
	}
	return m
}

var wsRe = regexp.MustCompile(`\s+`)

func normSexp(s string) string { return wsRe.ReplaceAllString(strings.TrimSpace(s), " ") }

func smtToUint(v string) (uint64, bool) {
	v = strings.TrimSpace(v)
	switch {
	case strings.HasPrefix(v, "#x"):
		if len(v) > 18 {
			return 0, false
		}
		u, err := strconv.ParseUint(v[2:], 16, 64)
		return u, err == nil
	case strings.HasPrefix(v, "#b"):
		if len(v) > 66 {
			return 0, false
		}
		u, err := strconv.ParseUint(v[2:], 2, 64)
		return u, err == nil
	case strings.HasPrefix(v, "(_ bv"):
		f := strings.Fields(v[5:])
		if len(f) > 0 {
			u, err := strconv.ParseUint(f[0], 10, 64)
			return u, err == nil
		}
	}
	return 0, false
}

func (r *replayer) solveValues(base string, terms []*Term, extra []string) (map[string]string, bool) {
	if len(terms) == 0 {
		return map[string]string{}, true
	}
	c := r.e.c
	body := strings.TrimSuffix(strings.TrimSpace(base), "(check-sat)")
	var strs []string
	for _, t := range terms {
		strs = append(strs, t.S)
	}
	// declarations for symbols that do not occur in the query
	pre := c.Prelude(append(append([]string{}, strs...), extra...))
	var b strings.Builder
	declared := map[string]bool{}
	for _, line := range strings.Split(body, "\n") {
		if strings.HasPrefix(line, "(declare-fun ") || strings.HasPrefix(line, "(define-fun ") {
			f := strings.Fields(line)
			if len(f) > 1 {
				declared[f[1]] = true
			}
		}
	}
	// keep header + declarations first, then missing declarations, then asserts
	var head, decls, asserts []string
	for _, line := range strings.Split(body, "\n") {
		switch {
		case strings.HasPrefix(line, "(assert"):
			asserts = append(asserts, line)
		case strings.HasPrefix(line, "(declare-fun ") || strings.HasPrefix(line, "(define-fun "):
			decls = append(decls, line)
		case strings.TrimSpace(line) != "":
			head = append(head, line)
		}
	}
	// merge declarations preserving creation order: re-render the prelude over everything
	all := append([]string{}, strs...)
	all = append(all, extra...)
	for _, a := range asserts {
		all = append(all, a)
	}
	_ = pre
	_ = decls
	b.WriteString(strings.Join(head, "\n") + "\n")
	b.WriteString(c.Prelude(all))
	b.WriteString(strings.Join(asserts, "\n") + "\n")
	for _, x := range extra {
		b.WriteString("(assert " + x + ")\n")
	}
	b.WriteString("(check-sat)\n(get-value (" + strings.Join(strs, " ") + "))\n")
	file := filepath.Join(r.scratch, fmt.Sprintf("replay-%d.smt2", time.Now().UnixNano()))
	_ = os.WriteFile(file, []byte(b.String()), 0o644)
	defer os.Remove(file)
	for _, sp := range solvers[:1] {
		res := runSolver(context.Background(), sp, file, 20)
		if res.status != "sat" {
			return nil, false
		}
		got := parseGetValue(res.out)
		out := map[string]string{}
		for _, t := range terms {
			if v, ok := got[normSexp(t.S)]; ok {
				out[t.S] = v
			}
		}
		return out, true
	}
	return nil, false
}

// ---- collecting input terms

func (r *replayer) scalarTerms(v Value, acc *[]*Term, lens *[]*Term, depth int) {
	if depth > 4 {
		return
	}
	switch x := v.(type) {
	case *Term:
		if x.Sort.K != KArr && !x.Const {
			*acc = append(*acc, x)
		}
	case *StructV:
		for _, f := range x.F {
			r.scalarTerms(f, acc, lens, depth)
		}
	case *SliceV:
		for _, t := range []*Term{x.Len, x.Cap, x.Nil} {
			if !t.Const {
				*acc = append(*acc, t)
			}
		}
		if !x.Len.Const {
			*lens = append(*lens, x.Len)
		}
	case *StringV:
		if !x.Len.Const {
			*acc = append(*acc, x.Len)
			*lens = append(*lens, x.Len)
		}
	case *PtrV:
		if !x.Nil.Const {
			*acc = append(*acc, x.Nil)
		}
		if x.Ref != nil && len(x.Ref.Path) == 0 {
			if pv, ok := r.e.lazyInit[x.Ref.Obj]; ok {
				r.scalarTerms(pv, acc, lens, depth+1)
			}
		}
	case *IfaceV:
		if !x.Nil.Const {
			*acc = append(*acc, x.Nil)
		}
	}
}

func (r *replayer) u(t *Term) (uint64, bool) {
	if t.Const {
		if t.Sort.K == KBool {
			if t.B {
				return 1, true
			}
			return 0, true
		}
		return t.C, true
	}
	v, ok := r.vals[t.S]
	if !ok {
		return 0, true // unconstrained by the query: any value will do
	}
	if v == "true" {
		return 1, true
	}
	if v == "false" {
		return 0, true
	}
	return smtToUint(v)
}

type elemReq struct {
	arr *Term
	n   uint64
}

func (r *replayer) arrayReqs(v Value, acc *[]elemReq, depth int) {
	if depth > 4 {
		return
	}
	switch x := v.(type) {
	case *StructV:
		for _, f := range x.F {
			r.arrayReqs(f, acc, depth)
		}
	case *SliceV:
		if x.Base == nil || len(x.Base.Path) != 0 {
			return
		}
		n, _ := r.u(x.Len)
		if n > 4096 {
			n = 4096
		}
		if av, ok := r.e.lazyInit[x.Base.Obj]; ok {
			r.arrLeaves(av, n, acc)
		}
	case *StringV:
		n, _ := r.u(x.Len)
		if n > 4096 {
			n = 4096
		}
		*acc = append(*acc, elemReq{x.Arr, n})
	case *PtrV:
		if x.Ref != nil && len(x.Ref.Path) == 0 {
			if pv, ok := r.e.lazyInit[x.Ref.Obj]; ok {
				if t, ok := pv.(*Term); ok && t.Sort.K == KArr {
					if at, ok := x.Ref.Obj.Typ.Underlying().(*types.Array); ok {
						*acc = append(*acc, elemReq{t, uint64(at.Len())})
					}
				} else {
					r.arrayReqs(pv, acc, depth+1)
				}
			}
		}
	case *Term:
		// fixed array passed by value: length unknown here; handled at generation time with the static type
	}
}

func (r *replayer) arrLeaves(av Value, n uint64, acc *[]elemReq) {
	switch a := av.(type) {
	case *Term:
		if a.Sort.K == KArr && a.Sort.Elem.K != KArr {
			*acc = append(*acc, elemReq{a, n})
		}
	case *SoAV:
		for _, f := range a.F {
			r.arrLeaves(f, n, acc)
		}
	}
}

// ---- Go source generation

func (r *replayer) typeStr(t types.Type) string {
	return types.TypeString(t, func(p *types.Package) string {
		if p == r.pkg {
			return ""
		}
		r.imports[p.Path()] = p.Name()
		return p.Name()
	})
}

func (r *replayer) scalarLit(t *Term, ty types.Type) string {
	u, ok := r.u(t)
	if !ok {
		u = 0
	}
	b := ty.Underlying().(*types.Basic)
	switch {
	case b.Info()&types.IsBoolean != 0:
		if u != 0 {
			return "true"
		}
		return "false"
	case b.Info()&types.IsFloat != 0:
		r.imports["math"] = "math"
		if intWidth(b) == 32 {
			return fmt.Sprintf("%s(math.Float32frombits(0x%x))", r.typeStr(ty), u)
		}
		return fmt.Sprintf("%s(math.Float64frombits(0x%x))", r.typeStr(ty), u)
	case b.Info()&types.IsUnsigned != 0:
		return fmt.Sprintf("%s(0x%x)", r.typeStr(ty), u)
	default:
		return fmt.Sprintf("%s(%d)", r.typeStr(ty), sext(u, intWidth(b)))
	}
}

func (r *replayer) elemAt(arr *Term, i uint64) *Term {
	return r.e.c.Select(arr, BVConst(i, 64))
}

// goExpr renders the model value of v (static type ty) as a Go expression; ok=false when not representable.
func (r *replayer) goExpr(v Value, ty types.Type, depth int) string {
	if depth > 5 {
		return r.zero(ty)
	}
	switch x := v.(type) {
	case *Term:
		if x.Sort.K == KArr {
			at, ok := ty.Underlying().(*types.Array)
			if !ok || !isScalar(at.Elem()) || at.Len() > 4096 {
				return r.zero(ty)
			}
			var parts []string
			for i := int64(0); i < at.Len(); i++ {
				parts = append(parts, r.scalarLit(r.elemAt(x, uint64(i)), at.Elem()))
			}
			return r.typeStr(ty) + "{" + strings.Join(parts, ", ") + "}"
		}
		if isScalar(ty) {
			return r.scalarLit(x, ty)
		}
		return r.zero(ty)
	case *StructV:
		st, ok := ty.Underlying().(*types.Struct)
		if !ok {
			return r.zero(ty)
		}
		var parts []string
		for i, f := range x.F {
			if st.Field(i).Name() == "_" {
				continue
			}
			parts = append(parts, st.Field(i).Name()+": "+r.goExpr(f, st.Field(i).Type(), depth+1))
		}
		return r.typeStr(ty) + "{" + strings.Join(parts, ", ") + "}"
	case *SliceV:
		st, ok := ty.Underlying().(*types.Slice)
		if !ok {
			return r.zero(ty)
		}
		if nl, _ := r.u(x.Nil); nl != 0 || x.Base == nil {
			return r.typeStr(ty) + "(nil)"
		}
		n, _ := r.u(x.Len)
		if n > 4096 {
			return r.zero(ty) // too large to materialise
		}
		av := r.e.lazyInit[x.Base.Obj]
		var parts []string
		for i := uint64(0); i < n; i++ {
			parts = append(parts, r.elemExpr(av, i, st.Elem(), depth+1))
		}
		return r.typeStr(ty) + "{" + strings.Join(parts, ", ") + "}"
	case *StringV:
		n, _ := r.u(x.Len)
		if n > 4096 {
			return `""`
		}
		var bs []byte
		for i := uint64(0); i < n; i++ {
			u, _ := r.u(r.elemAt(x.Arr, i))
			bs = append(bs, byte(u))
		}
		return r.typeStr(ty) + "(" + strconv.Quote(string(bs)) + ")"
	case *PtrV:
		pt, ok := ty.Underlying().(*types.Pointer)
		if !ok {
			return r.zero(ty)
		}
		if nl, _ := r.u(x.Nil); nl != 0 || x.Ref == nil || len(x.Ref.Path) != 0 {
			return "nil"
		}
		pv, ok := r.e.lazyInit[x.Ref.Obj]
		if !ok {
			pv = r.e.zeroVal(pt.Elem())
		}
		inner := r.goExpr(pv, pt.Elem(), depth+1)
		switch pt.Elem().Underlying().(type) {
		case *types.Struct, *types.Array:
			return "&" + inner
		}
		r.helperPtr = true
		return "verifReplayPtr(" + inner + ")"
	}
	return r.zero(ty)
}

func (r *replayer) elemExpr(av Value, i uint64, et types.Type, depth int) string {
	switch a := av.(type) {
	case *Term:
		if a.Sort.K == KArr {
			el := r.elemAt(a, i)
			if el.Sort.K == KArr {
				return r.goExpr(el, et, depth)
			}
			if isScalar(et) {
				return r.scalarLit(el, et)
			}
		}
	case *SoAV:
		st, ok := et.Underlying().(*types.Struct)
		if ok {
			var parts []string
			for k, f := range a.F {
				parts = append(parts, st.Field(k).Name()+": "+r.elemExpr(f, i, st.Field(k).Type(), depth+1))
			}
			return r.typeStr(et) + "{" + strings.Join(parts, ", ") + "}"
		}
	}
	return r.zero(et)
}

func (r *replayer) zero(ty types.Type) string {
	switch ty.Underlying().(type) {
	case *types.Pointer, *types.Interface, *types.Slice, *types.Map, *types.Chan, *types.Signature:
		return "nil"
	case *types.Struct, *types.Array:
		return r.typeStr(ty) + "{}"
	}
	if isString(ty) {
		return `""`
	}
	if b, ok := ty.Underlying().(*types.Basic); ok && b.Info()&types.IsBoolean != 0 {
		return "false"
	}
	if b, ok := ty.Underlying().(*types.Basic); ok && b.Kind() == types.UnsafePointer {
		return "nil"
	}
	return r.typeStr(ty) + "(0)"
}

// replaceRes rewrites verif_res[T](i) to r<i> and the identifiers of parameters inside verif_old(...) to old_<name>.
func replaceRes(src string, params []string) string {
	var b strings.Builder
	for i := 0; i < len(src); {
		if strings.HasPrefix(src[i:], "verif_res[") {
			j := i + len("verif_res[")
			depth := 1
			for j < len(src) && depth > 0 {
				if src[j] == '[' {
					depth++
				} else if src[j] == ']' {
					depth--
				}
				j++
			}
			// src[j] == '('
			k := strings.Index(src[j:], ")")
			idx := strings.TrimSpace(src[j+1 : j+k])
			b.WriteString("r" + idx)
			i = j + k + 1
			continue
		}
		if strings.HasPrefix(src[i:], "verif_old(") && (i == 0 || !isIdentChar(src[i-1])) {
			j := i + len("verif_old(")
			depth := 1
			k := j
			for k < len(src) && depth > 0 {
				if src[k] == '(' {
					depth++
				} else if src[k] == ')' {
					depth--
				}
				k++
			}
			inner := src[j : k-1]
			for _, p := range params {
				re := regexp.MustCompile(`(^|[^A-Za-z0-9_.])` + regexp.QuoteMeta(p) + `\b`)
				inner = re.ReplaceAllString(inner, "${1}old_"+p)
			}
			b.WriteString("(" + inner + ")")
			i = k
			continue
		}
		b.WriteByte(src[i])
		i++
	}
	return b.String()
}

func (e *Exec) replayObligation(o *Obligation, scratch string, overlays map[string]string) {
	defer func() {
		if rec := recover(); rec != nil {
			o.ReplayNote = fmt.Sprintf("replay generator failed: %v", rec)
		}
	}()
	if o.Status != "sat" || o.SMT == "" {
		return
	}
	fn := e.fn
	if fn.Pkg == nil || !strings.HasPrefix(fn.Pkg.Pkg.Path(), modPrefix) {
		o.ReplayNote = "function outside the dolt module: not replayed"
		return
	}
	if fn.Parent() != nil {
		o.ReplayNote = "closure: no concrete entry point to replay"
		return
	}
	r := &replayer{e: e, o: o, scratch: scratch, imports: map[string]string{"fmt": "fmt", "testing": "testing"}, pkg: fn.Pkg.Pkg}
	// 1. scalars (prefer small inputs)
	var scal, lens []*Term
	for _, pv := range e.paramVals {
		r.scalarTerms(pv, &scal, &lens, 0)
	}
	seen := map[string]bool{}
	var uniq []*Term
	for _, t := range scal {
		if !seen[t.S] {
			seen[t.S] = true
			uniq = append(uniq, t)
		}
	}
	var small []string
	for _, l := range lens {
		small = append(small, "(bvule "+l.S+" #x0000000000000040)")
	}
	vals, ok := r.solveValues(o.SMT, uniq, small)
	if !ok {
		small = nil
		vals, ok = r.solveValues(o.SMT, uniq, nil)
	}
	if !ok {
		o.ReplayNote = "could not obtain a model for the inputs"
		return
	}
	r.vals = vals
	// 2. array elements with scalars pinned
	var pins []string
	for _, t := range uniq {
		if v, ok := vals[t.S]; ok {
			pins = append(pins, "(= "+t.S+" "+v+")")
		}
	}
	var reqs []elemReq
	for _, pv := range e.paramVals {
		r.arrayReqs(pv, &reqs, 0)
	}
	var elems []*Term
	seenE := map[string]bool{}
	for _, rq := range reqs {
		for i := uint64(0); i < rq.n; i++ {
			t := r.elemAt(rq.arr, i)
			if t.Sort.K == KArr || seenE[t.S] {
				continue
			}
			seenE[t.S] = true
			elems = append(elems, t)
		}
	}
	// fixed arrays passed by value
	for i, pv := range e.paramVals {
		if t, ok := pv.(*Term); ok && t.Sort.K == KArr {
			if at, ok := fn.Params[i].Type().Underlying().(*types.Array); ok && at.Len() <= 4096 {
				for k := int64(0); k < at.Len(); k++ {
					el := r.elemAt(t, uint64(k))
					if el.Sort.K != KArr && !seenE[el.S] {
						seenE[el.S] = true
						elems = append(elems, el)
					}
				}
			}
		}
	}
	if len(elems) > 0 {
		ev, ok := r.solveValues(o.SMT, elems, pins)
		if !ok {
			o.ReplayNote = "could not obtain array contents for the inputs"
			return
		}
		for k, v := range ev {
			r.vals[k] = v
		}
	}
	// 3. source
	var body strings.Builder
	var pnames []string
	for i, p := range fn.Params {
		name := p.Name()
		if name == "" || name == "_" {
			name = fmt.Sprintf("arg%d", i)
		}
		pnames = append(pnames, name)
	}
	for i, p := range fn.Params {
		expr := r.goExpr(e.paramVals[i], p.Type(), 0)
		fmt.Fprintf(&body, "\t%s := %s\n\t_ = %s\n", pnames[i], expr, pnames[i])
		fmt.Fprintf(&body, "\told_%s := %s\n\t_ = old_%s\n", pnames[i], expr, pnames[i])
	}
	body.WriteString("\tfunc() {\n\t\tdefer func() {\n\t\t\tif verifRec := recover(); verifRec != nil {\n\t\t\t\tfmt.Printf(\"VERIF-REPLAY: panic: %v\\n\", verifRec)\n\t\t\t}\n\t\t}()\n")
	for i, rq := range e.con.Requires {
		src, err := desugar(rq.Text, fn, fn.Pkg.Pkg)
		if err != nil {
			continue
		}
		fmt.Fprintf(&body, "\t\tif !(%s) {\n\t\t\tfmt.Println(\"VERIF-REPLAY: precondition %d not met by the model inputs\")\n\t\t\treturn\n\t\t}\n", replaceRes(src, pnames), i+1)
	}
	// call
	res := fn.Signature.Results()
	var rnames []string
	for i := 0; i < res.Len(); i++ {
		n := res.At(i).Name()
		if n == "" || n == "_" {
			n = fmt.Sprintf("r%d", i)
		}
		rnames = append(rnames, n)
	}
	call := ""
	if fn.Signature.Recv() != nil {
		call = fmt.Sprintf("%s.%s(%s)", pnames[0], fn.Name(), strings.Join(pnames[1:], ", "))
	} else {
		call = fmt.Sprintf("%s(%s)", fn.Name(), strings.Join(pnames, ", "))
	}
	if fn.Signature.Variadic() {
		call = strings.TrimSuffix(call, ")") + "...)"
	}
	if len(rnames) > 0 {
		fmt.Fprintf(&body, "\t\t%s := %s\n", strings.Join(rnames, ", "), call)
		for i, n := range rnames {
			fmt.Fprintf(&body, "\t\t_ = %s\n", n)
			if n != fmt.Sprintf("r%d", i) {
				fmt.Fprintf(&body, "\t\tr%d := %s\n\t\t_ = r%d\n", i, n, i)
			}
		}
	} else {
		fmt.Fprintf(&body, "\t\t%s\n", call)
	}
	for i, en := range e.con.Ensures {
		src, err := desugar(en.Text, fn, fn.Pkg.Pkg)
		if err != nil {
			continue
		}
		fmt.Fprintf(&body, "\t\tif !(%s) {\n\t\t\tfmt.Println(\"VERIF-REPLAY: postcondition %d violated: %s\")\n\t\t}\n", replaceRes(src, pnames), i+1, strings.ReplaceAll(strings.ReplaceAll(en.Text, `\`, `\\`), `"`, `\"`))
	}
	body.WriteString("\t\tfmt.Println(\"VERIF-REPLAY: completed\")\n\t}()\n")
	var src strings.Builder
	src.WriteString("//go:build verif\n\npackage " + fn.Pkg.Pkg.Name() + "\n\nimport (\n")
	var ips []string
	for p := range r.imports {
		ips = append(ips, p)
	}
	sort.Strings(ips)
	for _, p := range ips {
		fmt.Fprintf(&src, "\t%s %q\n", r.imports[p], p)
	}
	src.WriteString(")\n\n")
	if r.helperPtr {
		src.WriteString("func verifReplayPtr[T any](v T) *T { return &v }\n\n")
	}
	src.WriteString("func TestVerifReplay(t *testing.T) {\n" + body.String() + "}\n")
	rel := strings.TrimPrefix(fn.Pkg.Pkg.Path(), modPrefix)
	testPath := filepath.Join(repoGo, rel, "verif_replay_zz_test.go")
	gen := filepath.Join(scratch, sanitize(o.Name)+"_replay_test.go")
	_ = os.WriteFile(gen, []byte(src.String()), 0o644)
	ov := map[string]string{testPath: gen}
	for k, v := range overlays {
		ov[k] = v
	}
	ovb, _ := json.Marshal(map[string]interface{}{"Replace": ov})
	ovf := filepath.Join(scratch, sanitize(o.Name)+"_overlay.json")
	_ = os.WriteFile(ovf, ovb, 0o644)
	ctx, cancel := context.WithTimeout(context.Background(), 300*time.Second)
	defer cancel()
	cmd := exec.CommandContext(ctx, "go", "test", "-overlay", ovf, "-tags", "verif", "-vet=off", "-count=1", "-v", "-timeout", "60s", "-run", "^TestVerifReplay$", "./"+rel)
	cmd.Dir = repoGo
	var out bytes.Buffer
	cmd.Stdout = &out
	cmd.Stderr = &out
	_ = cmd.Run()
	var lines []string
	for _, l := range strings.Split(out.String(), "\n") {
		if strings.HasPrefix(l, "VERIF-REPLAY:") {
			lines = append(lines, strings.TrimPrefix(l, "VERIF-REPLAY: "))
		}
	}
	o.ReplaySrc = src.String()
	res2 := strings.Join(lines, "; ")
	switch {
	case len(lines) == 0:
		o.ReplayNote = "replay test did not run to completion: " + trunc(out.String(), 1500)
	case strings.Contains(res2, "precondition"):
		o.ReplayNote = "not reproduced: " + res2
	case strings.Contains(res2, "panic:") || strings.Contains(res2, "violated"):
		o.Replayed = true
		o.ReplayNote = "reproduced on the real code: " + res2
	default:
		o.ReplayNote = "not reproduced (the model describes an intermediate state, e.g. inside a loop): " + res2
	}
}
