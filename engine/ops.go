package main

import (
	"fmt"
	"go/token"
	"go/types"
	"math"

	"golang.org/x/tools/go/ssa"
)

func f32bits(f float32) uint32 { return math.Float32bits(f) }
func f64bits(f float64) uint64 { return math.Float64bits(f) }

func (e *Exec) unop(s *State, f *Frame, in *ssa.UnOp) Value {
	x := e.get(f, in.X)
	switch in.Op {
	case token.MUL: // load
		p, ok := x.(*PtrV)
		if !ok {
			panic(unsupported(fmt.Sprintf("load through %T", x)))
		}
		e.nilCheck(s, p, in.Pos(), in)
		if p.Ref == nil {
			return e.freshValS(s, in.Type(), "ld")
		}
		if g := p.Ref.Obj.Global; g != nil && len(p.Ref.Path) == 0 || g != nil {
			if !e.w.globalStable(g) {
				// mutable global: every read is unconstrained
				v := e.freshValS(s, in.Type(), "g."+g.Name())
				return v
			}
		}
		v := e.load(s, p.Ref)
		if fv, ok := v.(*FuncV); ok && p.Ref.Obj.Global != nil && len(p.Ref.Path) == 0 && fv.Fn == nil && !fv.Nil.Const {
			if e.w.globalHasInit(p.Ref.Obj.Global) {
				// a package-level function variable with an initialiser that nothing but init (and tests) assigns
				e.note("package-level function variables that have an initialiser are non-nil")
				nv := &FuncV{Nil: False, Name: p.Ref.Obj.Global.Name()}
				e.lazyInit[p.Ref.Obj] = nv
				v = nv
			}
		}
		if iv, ok := v.(*IfaceV); ok && p.Ref.Obj.Global != nil && len(p.Ref.Path) == 0 && !iv.Nil.Const {
			if e.w.globalInitNonNil(p.Ref.Obj.Global) {
				// e.g. var errX = errors.New("..."): sentinel errors are non-nil
				e.note("package-level error variables initialised with errors.New / fmt.Errorf are non-nil")
				nv := &IfaceV{Nil: False, ID: iv.ID}
				e.lazyInit[p.Ref.Obj] = nv
				v = nv
			}
		}
		if sv, ok := v.(*SliceV); ok && isString(in.Type()) {
			// *(*string)(unsafe.Pointer(&b)): the slice header read as a string header
			if sv.Base == nil {
				return e.zeroVal(in.Type())
			}
			if arr, ok := e.load(s, sv.Base).(*Term); ok {
				return &StringV{Arr: arr, Off: sv.Off, Len: sv.Len}
			}
		}
		if t, ok := v.(*Term); ok && t.Sort.K == KBV {
			// values of integer variables and fields (not array elements) are index-like
			elem := false
			for _, pe := range p.Ref.Path {
				if pe.Index != nil {
					elem = true
				}
			}
			if !elem && !p.Ref.Obj.IsArr && !isFloat(in.Type()) {
				s.addCand(t, isSigned(in.Type()))
			}
		}
		return v
	case token.NOT:
		return e.c.Not(x.(*Term))
	case token.SUB:
		t := x.(*Term)
		if isFloat(in.X.Type()) {
			return e.c.UF(fmt.Sprintf("fneg%d", t.Sort.W), t.Sort, t)
		}
		return e.c.Neg(t)
	case token.XOR:
		return e.c.BNot(x.(*Term))
	case token.ARROW:
		e.note("channel receive returns an unconstrained value: " + f.fn.String())
		if in.CommaOk {
			return TupleV{e.freshValS(s, in.Type().(*types.Tuple).At(0).Type(), "recv"), e.c.Fresh("recvok", SBool)}
		}
		return e.freshValS(s, in.Type(), "recv")
	}
	panic(unsupported("unop " + in.Op.String()))
}

func (e *Exec) binop(s *State, op token.Token, x, y Value, xt, yt types.Type, key ssa.Instruction, pos token.Pos) Value {
	c := e.c
	switch op {
	case token.EQL:
		return e.valEq(s, x, y, xt)
	case token.NEQ:
		return c.Not(e.valEq(s, x, y, xt))
	}
	if sx, ok := x.(*StringV); ok {
		sy := y.(*StringV)
		switch op {
		case token.ADD:
			if sx.Lit != nil && sy.Lit != nil {
				return e.strConst(*sx.Lit + *sy.Lit)
			}
			l := c.Add(sx.Len, sy.Len)
			return &StringV{Arr: c.Fresh("concat", SArr(SBV(8))), Off: BVConst(0, 64), Len: l}
		case token.LSS, token.LEQ, token.GTR, token.GEQ:
			e.note("string ordering comparison is uninterpreted")
			return c.Fresh("strcmp", SBool)
		}
		panic(unsupported("string binop " + op.String()))
	}
	a, ok1 := x.(*Term)
	b, ok2 := y.(*Term)
	if !ok1 || !ok2 {
		panic(unsupported(fmt.Sprintf("binop %s on %T,%T", op, x, y)))
	}
	if a.Sort.K == KBool {
		switch op {
		case token.AND, token.LAND:
			return c.And(a, b)
		case token.OR, token.LOR:
			return c.Or(a, b)
		}
		panic(unsupported("bool binop " + op.String()))
	}
	if isFloat(xt) {
		w := a.Sort.W
		switch op {
		case token.ADD, token.SUB, token.MUL, token.QUO:
			return c.UF(fmt.Sprintf("f%s%d", map[token.Token]string{token.ADD: "add", token.SUB: "sub", token.MUL: "mul", token.QUO: "div"}[op], w), a.Sort, a, b)
		case token.LSS:
			return e.fcmp("lt", a, b)
		case token.LEQ:
			return e.fcmp("leq", a, b)
		case token.GTR:
			return e.fcmp("lt", b, a)
		case token.GEQ:
			return e.fcmp("leq", b, a)
		}
		panic(unsupported("float binop " + op.String()))
	}
	signed := isSigned(xt)
	switch op {
	case token.ADD:
		r := c.Add(a, b)
		if e.addrOf != nil {
			// pointer arithmetic on the symbolic address of a byte-array element
			if ai, ok := e.addrOf[a.S]; ok {
				e.addrOf[r.S] = &addrInfo{base: ai.base, idx: c.Add(ai.idx, b), lo: ai.lo, hi: ai.hi}
			} else if ai, ok := e.addrOf[b.S]; ok {
				e.addrOf[r.S] = &addrInfo{base: ai.base, idx: c.Add(ai.idx, a), lo: ai.lo, hi: ai.hi}
			}
		}
		return r
	case token.SUB:
		return c.Sub(a, b)
	case token.MUL:
		return c.Mul(a, b)
	case token.QUO:
		e.check(s, "div", c.Not(c.Eq(b, BVConst(0, b.Sort.W))), pos, key)
		if signed {
			return c.SDiv(a, b)
		}
		return c.UDiv(a, b)
	case token.REM:
		e.check(s, "div", c.Not(c.Eq(b, BVConst(0, b.Sort.W))), pos, key)
		if signed {
			return c.SRem(a, b)
		}
		return c.URem(a, b)
	case token.AND:
		return c.BAnd(a, b)
	case token.OR:
		return c.BOr(a, b)
	case token.XOR:
		return c.BXor(a, b)
	case token.AND_NOT:
		return c.BAnd(a, c.BNot(b))
	case token.SHL, token.SHR:
		w := a.Sort.W
		if isSigned(yt) {
			e.check(s, "shift", c.SLe(BVConst(0, b.Sort.W), b), pos, key)
		}
		// bring the count to the operand width, saturating
		var cnt *Term
		var big *Term = False
		if b.Sort.W > w {
			big = c.ULe(BVConst(uint64(w), b.Sort.W), b)
			cnt = c.Extract(b, w-1, 0)
		} else {
			cnt = c.ZExt(b, w)
		}
		var r *Term
		if op == token.SHL {
			r = c.Shl(a, cnt)
			return c.Ite(big, BVConst(0, w), r)
		}
		if signed {
			r = c.AShr(a, cnt)
			return c.Ite(big, c.AShr(a, BVConst(uint64(w-1), w)), r)
		}
		r = c.LShr(a, cnt)
		return c.Ite(big, BVConst(0, w), r)
	case token.LSS:
		if signed {
			return c.SLt(a, b)
		}
		return c.ULt(a, b)
	case token.LEQ:
		if signed {
			return c.SLe(a, b)
		}
		return c.ULe(a, b)
	case token.GTR:
		if signed {
			return c.SLt(b, a)
		}
		return c.ULt(b, a)
	case token.GEQ:
		if signed {
			return c.SLe(b, a)
		}
		return c.ULe(b, a)
	}
	panic(unsupported("binop " + op.String()))
}

func (e *Exec) fcmp(op string, a, b *Term) *Term {
	// IEEE comparison via the fp theory is avoided; comparisons are uninterpreted predicates.
	e.note("floating-point comparison is uninterpreted")
	return e.c.UF(fmt.Sprintf("f%s%d", op, a.Sort.W), SBool, a, b)
}

// valEq is Go's == on two values of static type t.
func (e *Exec) valEq(s *State, x, y Value, t types.Type) *Term {
	c := e.c
	switch a := x.(type) {
	case *Term:
		b, ok := y.(*Term)
		if !ok {
			panic(unsupported("eq term vs non-term"))
		}
		if a.Sort.K == KArr {
			arr, ok := t.Underlying().(*types.Array)
			if !ok {
				panic(unsupported("array eq without array type"))
			}
			return e.arrEq(s, a, b, arr)
		}
		if isFloat(t) {
			return c.UF(fmt.Sprintf("feq%d", a.Sort.W), SBool, a, b)
		}
		return c.Eq(a, b)
	case *StructV:
		b := y.(*StructV)
		st := t.Underlying().(*types.Struct)
		var parts []*Term
		for i := range a.F {
			parts = append(parts, e.valEq(s, a.F[i], b.F[i], st.Field(i).Type()))
		}
		return c.And(parts...)
	case *PtrV:
		b, ok := y.(*PtrV)
		if !ok {
			panic(unsupported("ptr eq non-ptr"))
		}
		bothNil := c.And(a.Nil, b.Nil)
		if a.ID != nil && b.ID != nil {
			return c.Or(bothNil, c.And(c.Not(a.Nil), c.Not(b.Nil), c.Eq(a.ID, b.ID)))
		}
		if (a.ID != nil || b.ID != nil) && !(a.Nil.Const && a.Nil.B) && !(b.Nil.Const && b.Nil.B) {
			// one side is known by identity only (loaded from an array of pointers): equality is unknown
			return c.Or(bothNil, c.And(c.Not(a.Nil), c.Not(b.Nil), c.Fresh("ptreq", SBool)))
		}
		if a.Ref != nil && b.Ref != nil {
			same := a.Ref.Obj == b.Ref.Obj && len(a.Ref.Path) == len(b.Ref.Path)
			var idxEq []*Term
			if same {
				for i := range a.Ref.Path {
					pa, pb := a.Ref.Path[i], b.Ref.Path[i]
					if (pa.Index == nil) != (pb.Index == nil) || (pa.Index == nil && pa.Field != pb.Field) {
						same = false
						break
					}
					if pa.Index != nil {
						idxEq = append(idxEq, c.Eq(pa.Index, pb.Index))
					}
				}
			}
			if same {
				return c.Or(bothNil, c.And(c.Not(a.Nil), c.Not(b.Nil), c.And(idxEq...)))
			}
			// distinct objects: equal only if both nil. (Separation of distinct abstract objects is an assumption.)
			return bothNil
		}
		if a.Ref == nil && b.Ref == nil {
			return bothNil
		}
		return c.Or(bothNil, c.And(c.Not(a.Nil), c.Not(b.Nil), c.Fresh("ptreq", SBool)))
	case *StringV:
		b := y.(*StringV)
		if a.Lit != nil && b.Lit != nil {
			return BoolConst(*a.Lit == *b.Lit)
		}
		// one side constant: expand byte-wise
		var lit *StringV
		var other *StringV
		if a.Lit != nil {
			lit, other = a, b
		} else if b.Lit != nil {
			lit, other = b, a
		}
		if lit != nil && len(*lit.Lit) <= 64 {
			parts := []*Term{c.Eq(other.Len, BVConst(uint64(len(*lit.Lit)), 64))}
			for i := 0; i < len(*lit.Lit); i++ {
				parts = append(parts, c.Eq(c.Select(other.Arr, c.Add(other.Off, BVConst(uint64(i), 64))), BVConst(uint64((*lit.Lit)[i]), 8)))
			}
			return c.And(parts...)
		}
		return e.bytesEq(s, a.Arr, a.Off, a.Len, b.Arr, b.Off, b.Len)
	case *IfaceV:
		b, ok := y.(*IfaceV)
		if !ok {
			panic(unsupported("iface eq non-iface"))
		}
		if b.Nil.Const && b.Nil.B {
			return a.Nil
		}
		if a.Nil.Const && a.Nil.B {
			return b.Nil
		}
		return c.Or(c.And(a.Nil, b.Nil), c.And(c.Not(a.Nil), c.Not(b.Nil), c.Eq(a.ID, b.ID)))
	case *SliceV:
		// only comparison with nil is legal
		if b, ok := y.(*SliceV); ok {
			if b.Nil.Const && b.Nil.B {
				return a.Nil
			}
			if a.Nil.Const && a.Nil.B {
				return b.Nil
			}
		}
		panic(unsupported("slice comparison"))
	case *FuncV:
		b := y.(*FuncV)
		if b.Nil.Const && b.Nil.B {
			return a.Nil
		}
		if a.Nil.Const && a.Nil.B {
			return b.Nil
		}
		panic(unsupported("func comparison"))
	case *OpaqueV:
		b, ok := y.(*OpaqueV)
		if !ok {
			panic(unsupported("opaque eq"))
		}
		if b.Nil.Const && b.Nil.B {
			return a.Nil
		}
		if a.Nil.Const && a.Nil.B {
			return b.Nil
		}
		return c.Or(c.And(a.Nil, b.Nil), c.And(c.Not(a.Nil), c.Not(b.Nil), c.Eq(a.ID, b.ID)))
	case *SoAV:
		panic(unsupported("array-of-struct comparison"))
	}
	panic(unsupported(fmt.Sprintf("eq on %T", x)))
}

func (e *Exec) arrEq(s *State, a, b *Term, arr *types.Array) *Term {
	c := e.c
	n := arr.Len()
	if a.S == b.S {
		return True
	}
	if n <= 64 {
		var parts []*Term
		for i := int64(0); i < n; i++ {
			ix := BVConst(uint64(i), 64)
			ea, eb := c.Select(a, ix), c.Select(b, ix)
			if ea.Sort.K == KArr {
				parts = append(parts, e.arrEq(s, ea, eb, arr.Elem().Underlying().(*types.Array)))
			} else {
				parts = append(parts, c.Eq(ea, eb))
			}
		}
		return c.And(parts...)
	}
	return e.bytesEq(s, a, BVConst(0, 64), BVConst(uint64(n), 64), b, BVConst(0, 64), BVConst(uint64(n), 64))
}

func (e *Exec) ifaceID(v Value, t types.Type) *Term {
	switch x := v.(type) {
	case *PtrV:
		if x.Ref != nil {
			return e.c.Named(fmt.Sprintf("objid_%d", x.Ref.Obj.ID), SBV(64))
		}
	case *Term:
		if x.Sort.K == KBV && x.Sort.W <= 64 {
			return e.c.ZExt(x, 64)
		}
	}
	return e.c.Fresh("ifid", SBV(64))
}

func (e *Exec) convert(s *State, x Value, from, to types.Type, key ssa.Instruction) Value {
	c := e.c
	fu, tu := from.Underlying(), to.Underlying()
	if tp, ok := to.(*types.TypeParam); ok {
		_ = tp
		panic(unsupported("conversion to type parameter"))
	}
	switch t := x.(type) {
	case *Term:
		tb, ok := tu.(*types.Basic)
		if !ok {
			panic(unsupported("convert scalar to " + to.String()))
		}
		if tb.Kind() == types.UnsafePointer {
			if ai, ok := e.addrOf[t.S]; ok {
				// uintptr arithmetic on the data pointer of a byte slice: a pointer to element idx of that
				// array. The runtime performs no check here, so being inside the slice is an obligation.
				e.check(s, "unsafe", c.And(c.ULe(ai.lo, ai.idx), c.ULt(ai.idx, ai.hi)), posOf(key), key)
				return &PtrV{Ref: ai.base.extend(PElem{Index: ai.idx}), Nil: False}
			}
			return &OpaqueV{Typ: to, ID: e.c.ZExt(t, 64), Nil: e.c.Eq(e.c.ZExt(t, 64), BVConst(0, 64))}
		}
		if isString(to) {
			// string(rune)
			e.note("string(rune) conversion is opaque")
			return e.freshValS(s, to, "runestr")
		}
		if t.Sort.K == KBool {
			return t
		}
		ff, tf := isFloat(from), isFloat(to)
		tw := intWidth(tb)
		switch {
		case ff && tf:
			if t.Sort.W == tw {
				return t
			}
			return c.UF(fmt.Sprintf("fcvt%dto%d", t.Sort.W, tw), SBV(tw), t)
		case ff && !tf:
			return c.UF(fmt.Sprintf("f%dtoint%d_%v", t.Sort.W, tw, isSigned(to)), SBV(tw), t)
		case !ff && tf:
			return c.UF(fmt.Sprintf("int%d_%vtof%d", t.Sort.W, isSigned(from), tw), SBV(tw), t)
		}
		if tw <= t.Sort.W {
			return c.Extract(t, tw-1, 0)
		}
		if isSigned(from) {
			return c.SExt(t, tw)
		}
		return c.ZExt(t, tw)
	case *StringV:
		if sl, ok := tu.(*types.Slice); ok {
			// []byte(s) / []rune(s)
			if b, ok := sl.Elem().Underlying().(*types.Basic); ok && b.Kind() == types.Uint8 {
				o := e.newObj(fmt.Sprintf("conv#%d", s.step), sl.Elem(), true, s.step)
				s.heap.m[o] = t.Arr
				return &SliceV{Base: &Ref{Obj: o}, Off: t.Off, Len: t.Len, Cap: t.Len, Nil: False, Elem: sl.Elem()}
			}
			e.note("[]rune(string) conversion is opaque")
			return e.freshValS(s, to, "runes")
		}
		if isString(to) {
			return t
		}
	case *SliceV:
		if isString(to) {
			if b, ok := t.Elem.Underlying().(*types.Basic); ok && b.Kind() == types.Uint8 {
				if t.Base == nil {
					return e.zeroVal(to)
				}
				arr, ok := e.load(s, t.Base).(*Term)
				if !ok {
					panic(unsupported("string of non-term slice"))
				}
				return &StringV{Arr: arr, Off: t.Off, Len: t.Len}
			}
			e.note("string([]rune) conversion is opaque")
			return e.freshValS(s, to, "str")
		}
		if _, ok := tu.(*types.Slice); ok {
			return t
		}
	case *PtrV:
		if _, ok := tu.(*types.Pointer); ok {
			return t
		}
		if b, ok := tu.(*types.Basic); ok && b.Kind() == types.UnsafePointer {
			return t // keep the reference
		}
		if b, ok := tu.(*types.Basic); ok && b.Kind() == types.Uintptr && t.Ref != nil && t.raw != nil {
			// address of a byte-array element as an integer: symbolic address tied to (array, index)
			a := c.Fresh("addr", SBV(64))
			if e.addrOf == nil {
				e.addrOf = map[string]*addrInfo{}
			}
			e.addrOf[a.S] = &addrInfo{base: t.raw.base, idx: t.raw.idx, lo: t.raw.lo, hi: t.raw.hi}
			return a
		}
	case *OpaqueV:
		if _, ok := tu.(*types.Pointer); ok {
			e.note("pointer obtained from unsafe.Pointer is opaque")
			return e.freshValS(s, to, "unsafeptr")
		}
		if b, ok := tu.(*types.Basic); ok && b.Info()&types.IsInteger != 0 {
			return t.ID
		}
		return t
	}
	_ = fu
	panic(unsupported(fmt.Sprintf("convert %T from %s to %s", x, from, to)))
}

func (e *Exec) sliceElemRef(sv *SliceV, idx64 *Term) *Ref {
	return sv.Base.extend(PElem{Index: e.c.Add(sv.Off, idx64)})
}

func (e *Exec) idx64(s *State, v Value, t types.Type) *Term {
	ix := v.(*Term)
	return e.toBV64(ix, t)
}

func (e *Exec) indexAddr(s *State, f *Frame, in *ssa.IndexAddr) Value {
	x := e.get(f, in.X)
	ix := e.idx64(s, e.get(f, in.Index), in.Index.Type())
	switch xv := x.(type) {
	case *SliceV:
		e.check(s, "bounds", e.c.ULt(ix, xv.Len), in.Pos(), in)
		if xv.Base == nil {
			s.dead = true // index into nil slice always panics (len 0)
			return &PtrV{Nil: True}
		}
		return &PtrV{Ref: e.sliceElemRef(xv, ix), Nil: False}
	case *PtrV:
		e.nilCheck(s, xv, in.Pos(), in)
		arr := in.X.Type().Underlying().(*types.Pointer).Elem().Underlying().(*types.Array)
		e.check(s, "bounds", e.c.ULt(ix, BVConst(uint64(arr.Len()), 64)), in.Pos(), in)
		if xv.Ref == nil {
			panic(unsupported("indexaddr of unknown array pointer"))
		}
		return &PtrV{Ref: xv.Ref.extend(PElem{Index: ix}), Nil: False}
	}
	panic(unsupported(fmt.Sprintf("indexaddr on %T", x)))
}

func (e *Exec) index(s *State, f *Frame, in *ssa.Index) Value {
	x := e.get(f, in.X)
	ix := e.idx64(s, e.get(f, in.Index), in.Index.Type())
	switch xv := x.(type) {
	case *StringV:
		e.check(s, "bounds", e.c.ULt(ix, xv.Len), in.Pos(), in)
		return e.c.Select(xv.Arr, e.c.Add(xv.Off, ix))
	case *Term, *SoAV, *OpaqueArrV:
		if arr, ok := in.X.Type().Underlying().(*types.Array); ok {
			e.check(s, "bounds", e.c.ULt(ix, BVConst(uint64(arr.Len()), 64)), in.Pos(), in)
		}
		return e.navigate(x, []PElem{{Index: ix}}, nil)
	}
	panic(unsupported(fmt.Sprintf("index on %T", x)))
}

func (e *Exec) sliceOp(s *State, f *Frame, in *ssa.Slice) Value {
	c := e.c
	x := e.get(f, in.X)
	opt := func(v ssa.Value) *Term {
		if v == nil {
			return nil
		}
		return e.idx64(s, e.get(f, v), v.Type())
	}
	lo, hi, mx := opt(in.Low), opt(in.High), opt(in.Max)
	if lo == nil {
		lo = BVConst(0, 64)
	}
	switch xv := x.(type) {
	case *SliceV:
		if hi == nil {
			hi = xv.Len
		}
		capEnd := xv.Cap
		if mx != nil {
			e.check(s, "bounds", c.And(c.ULe(lo, hi), c.ULe(hi, mx), c.ULe(mx, xv.Cap)), in.Pos(), in)
			capEnd = mx
		} else {
			e.check(s, "bounds", c.And(c.ULe(lo, hi), c.ULe(hi, xv.Cap)), in.Pos(), in)
		}
		return &SliceV{Base: xv.Base, Off: c.Add(xv.Off, lo), Len: c.Sub(hi, lo), Cap: c.Sub(capEnd, lo), Nil: xv.Nil, Elem: xv.Elem}
	case *StringV:
		if hi == nil {
			hi = xv.Len
		}
		e.check(s, "bounds", c.And(c.ULe(lo, hi), c.ULe(hi, xv.Len)), in.Pos(), in)
		nv := &StringV{Arr: xv.Arr, Off: c.Add(xv.Off, lo), Len: c.Sub(hi, lo)}
		if xv.Lit != nil && lo.Const && hi.Const && hi.C <= uint64(len(*xv.Lit)) && lo.C <= hi.C {
			l := (*xv.Lit)[lo.C:hi.C]
			nv.Lit = &l
		}
		return nv
	case *PtrV:
		e.nilCheck(s, xv, in.Pos(), in)
		arr := in.X.Type().Underlying().(*types.Pointer).Elem().Underlying().(*types.Array)
		n := BVConst(uint64(arr.Len()), 64)
		if hi == nil {
			hi = n
		}
		capEnd := n
		if mx != nil {
			e.check(s, "bounds", c.And(c.ULe(lo, hi), c.ULe(hi, mx), c.ULe(mx, n)), in.Pos(), in)
			capEnd = mx
		} else {
			e.check(s, "bounds", c.And(c.ULe(lo, hi), c.ULe(hi, n)), in.Pos(), in)
		}
		if xv.Ref == nil {
			panic(unsupported("slice of unknown array pointer"))
		}
		return &SliceV{Base: xv.Ref, Off: lo, Len: c.Sub(hi, lo), Cap: c.Sub(capEnd, lo), Nil: False, Elem: arr.Elem()}
	}
	panic(unsupported(fmt.Sprintf("slice op on %T", x)))
}

func (e *Exec) typeAssert(s *State, f *Frame, in *ssa.TypeAssert) Value {
	x := e.get(f, in.X)
	iv, ok := x.(*IfaceV)
	if !ok {
		panic(unsupported(fmt.Sprintf("type assert on %T", x)))
	}
	_, toIface := in.AssertedType.Underlying().(*types.Interface)
	var okT *Term
	var val Value
	if iv.Typ != nil {
		if toIface {
			okb := types.Implements(iv.Typ, in.AssertedType.Underlying().(*types.Interface))
			okT = BoolConst(okb)
			val = iv
		} else {
			okb := types.Identical(iv.Typ, in.AssertedType)
			okT = BoolConst(okb)
			if okb {
				val = iv.Val
			} else {
				val = e.zeroVal(in.AssertedType)
			}
		}
	} else {
		okT = e.c.And(e.c.Not(iv.Nil), e.c.Fresh("taok", SBool))
		if toIface {
			val = &IfaceV{Nil: e.c.Not(okT), ID: iv.ID}
		} else if isScalar(in.AssertedType) && iv.ID != nil {
			// unboxing is a function of the interface value: the same interface value asserted to the same scalar
			// type gives the same result (and the same success flag), here and in contracts
			okT, val = e.unboxScalar(iv, in.AssertedType)
		} else {
			val = e.freshValS(s, in.AssertedType, "ta")
		}
	}
	if in.CommaOk {
		return TupleV{val, okT}
	}
	e.check(s, "typeassert", okT, in.Pos(), in)
	return val
}

// unboxScalar models x.(T) for a scalar T on an interface of unknown dynamic type by uninterpreted functions of the
// interface's identity.
func (e *Exec) unboxScalar(iv *IfaceV, t types.Type) (*Term, *Term) {
	name := sanitize(types.TypeString(t, nil))
	id := e.c.Ite(iv.Nil, BVConst(0, 64), iv.ID)
	ok := e.c.And(e.c.Not(iv.Nil), e.c.UF("isdyn_"+name, SBool, id))
	return ok, e.c.UF("unbox_"+name, scalarSort(t), id)
}

func (e *Exec) lookup(s *State, f *Frame, in *ssa.Lookup) Value {
	x := e.get(f, in.X)
	if sv, ok := x.(*StringV); ok {
		ix := e.idx64(s, e.get(f, in.Index), in.Index.Type())
		e.check(s, "bounds", e.c.ULt(ix, sv.Len), in.Pos(), in)
		return e.c.Select(sv.Arr, e.c.Add(sv.Off, ix))
	}
	// opaque map
	mt := in.X.Type().Underlying().(*types.Map)
	v := e.freshValS(s, mt.Elem(), "mapv")
	if in.CommaOk {
		return TupleV{v, e.c.Fresh("mapok", SBool)}
	}
	return v
}

func (e *Exec) next(s *State, f *Frame, in *ssa.Next) Value {
	it := e.get(f, in.Iter).(*rangeIter)
	tup := in.Type().(*types.Tuple)
	if in.IsString {
		sv := it.x.(*StringV)
		c := e.c
		// sequential iteration: the hidden cell holds the byte position of the next rune. A byte < 0x80 is
		// the rune itself and has width 1; otherwise the rune is some value >= 0x80 of width 1..4
		// (sound over-approximation of UTF-8 decoding, exact for ASCII).
		ref := &Ref{Obj: it.obj}
		pos := e.load(s, ref).(*Term)
		okT := c.ULt(pos, sv.Len)
		b := c.Select(sv.Arr, c.Add(sv.Off, pos))
		r := c.Fresh("rune", SBV(32))
		w := c.Fresh("runew", SBV(64))
		ascii := c.ULt(b, BVConst(0x80, 8))
		s.axiom(c.Ite(ascii, c.And(c.Eq(r, c.ZExt(b, 32)), c.Eq(w, BVConst(1, 64))),
			c.And(c.ULe(BVConst(0x80, 32), r), c.ULe(r, BVConst(0x10FFFF, 32)), c.ULe(BVConst(1, 64), w), c.ULe(w, BVConst(4, 64)))))
		// in bounds: the width never runs past the end of the string
		s.axiom(c.Implies(okT, c.ULe(c.Add(pos, w), sv.Len)))
		e.store(s, ref, c.Ite(okT, c.Add(pos, w), pos))
		e.note("range over string: exact for bytes < 0x80; a byte >= 0x80 starts a rune >= 0x80 of width 1..4")
		return TupleV{okT, pos, r}
	}
	// map iteration: unconstrained
	okT := e.c.Fresh("mok", SBool)
	return TupleV{okT, e.freshValS(s, tup.At(1).Type(), "mk"), e.freshValS(s, tup.At(2).Type(), "mv")}
}
