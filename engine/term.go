package main

// SMT term construction with light constant folding. Terms are strings over
// QF_AUFBV (+ uninterpreted functions); large terms are named with 0-ary
// define-funs so that shared sub-terms stay linear in size.

import (
	"fmt"
	"sort"
	"strings"
	"sync"
)

type SortKind int

const (
	KBool SortKind = iota
	KBV
	KArr // index is always (_ BitVec 64)
	KU   // uninterpreted sort U
)

type Sort struct {
	K    SortKind
	W    int
	Elem *Sort
}

var (
	SBool = &Sort{K: KBool}
	SU    = &Sort{K: KU}
	bvSorts sync.Map
)

func SBV(w int) *Sort {
	if s, ok := bvSorts.Load(w); ok {
		return s.(*Sort)
	}
	s := &Sort{K: KBV, W: w}
	bvSorts.Store(w, s)
	return s
}
func SArr(e *Sort) *Sort { return &Sort{K: KArr, Elem: e} }

func (s *Sort) String() string {
	switch s.K {
	case KBool:
		return "Bool"
	case KBV:
		return fmt.Sprintf("(_ BitVec %d)", s.W)
	case KArr:
		return "(Array (_ BitVec 64) " + s.Elem.String() + ")"
	case KU:
		return "U"
	}
	return "?"
}
func (s *Sort) Eq(o *Sort) bool {
	if s.K != o.K {
		return false
	}
	switch s.K {
	case KBV:
		return s.W == o.W
	case KArr:
		return s.Elem.Eq(o.Elem)
	}
	return true
}

type Term struct {
	S     string
	Sort  *Sort
	Const bool
	C     uint64 // BV constant (W<=64) value
	B     bool   // Bool constant value
	Op    string  // "and", "=", "not" for structured boolean terms (used for cheap path pruning)
	Args  []*Term
}

func (t *Term) String() string { return t.S }

// Ctx holds declarations of one verification run (one function under proof).
type Ctx struct {
	mu     sync.Mutex
	n      int
	decls  map[string]string // name -> full declaration / definition line
	order  []string
	deps   map[string][]string // definition name -> names used
	index  map[string]int
}

func NewCtx() *Ctx {
	return &Ctx{decls: map[string]string{}, deps: map[string][]string{}}
}

func sanitize(s string) string {
	var b strings.Builder
	for _, r := range s {
		if r >= 'a' && r <= 'z' || r >= 'A' && r <= 'Z' || r >= '0' && r <= '9' || r == '_' || r == '.' {
			b.WriteRune(r)
		} else {
			b.WriteByte('_')
		}
	}
	return b.String()
}

func (c *Ctx) Fresh(hint string, s *Sort) *Term {
	c.mu.Lock()
	defer c.mu.Unlock()
	c.n++
	name := fmt.Sprintf("%s!%d", sanitize(hint), c.n)
	c.decls[name] = fmt.Sprintf("(declare-fun %s () %s)", name, s)
	c.order = append(c.order, name)
	return &Term{S: name, Sort: s}
}

// Named returns a stable symbol (declared once) - used for globals / UFs of arity 0.
func (c *Ctx) Named(name string, s *Sort) *Term {
	c.mu.Lock()
	defer c.mu.Unlock()
	name = sanitize(name)
	if _, ok := c.decls[name]; !ok {
		c.decls[name] = fmt.Sprintf("(declare-fun %s () %s)", name, s)
		c.order = append(c.order, name)
	}
	return &Term{S: name, Sort: s}
}

// UF applies an uninterpreted function (declared on first use).
func (c *Ctx) UF(name string, res *Sort, args ...*Term) *Term {
	c.mu.Lock()
	name = "uf_" + sanitize(name)
	if _, ok := c.decls[name]; !ok {
		var as []string
		for _, a := range args {
			as = append(as, a.Sort.String())
		}
		c.decls[name] = fmt.Sprintf("(declare-fun %s (%s) %s)", name, strings.Join(as, " "), res)
		c.order = append(c.order, name)
	}
	c.mu.Unlock()
	if len(args) == 0 {
		return &Term{S: name, Sort: res}
	}
	var as []string
	for _, a := range args {
		as = append(as, a.S)
	}
	return c.mk("("+name+" "+strings.Join(as, " ")+")", res)
}

const nameThreshold = 160

// mk wraps a compound term, naming it when it is large.
func (c *Ctx) mk(s string, so *Sort) *Term {
	if len(s) <= nameThreshold {
		return &Term{S: s, Sort: so}
	}
	c.mu.Lock()
	defer c.mu.Unlock()
	c.n++
	name := fmt.Sprintf("d!%d", c.n)
	c.decls[name] = fmt.Sprintf("(define-fun %s () %s %s)", name, so, s)
	c.deps[name] = symbolsOf(s)
	c.order = append(c.order, name)
	return &Term{S: name, Sort: so}
}

func symbolsOf(s string) []string {
	var out []string
	i := 0
	for i < len(s) {
		ch := s[i]
		if ch == '(' || ch == ')' || ch == ' ' || ch == '\n' {
			i++
			continue
		}
		j := i
		for j < len(s) && s[j] != '(' && s[j] != ')' && s[j] != ' ' && s[j] != '\n' {
			j++
		}
		tok := s[i:j]
		if strings.ContainsRune(tok, '!') || strings.HasPrefix(tok, "uf_") || strings.HasPrefix(tok, "g_") {
			out = append(out, tok)
		}
		i = j
	}
	return out
}

// Used returns the set of declared symbols (transitively) used by the assertion strings.
func (c *Ctx) Used(asserts []string) map[string]bool {
	c.mu.Lock()
	defer c.mu.Unlock()
	need := map[string]bool{}
	var work []string
	for _, a := range asserts {
		work = append(work, symbolsOf(a)...)
	}
	for len(work) > 0 {
		n := work[len(work)-1]
		work = work[:len(work)-1]
		if need[n] {
			continue
		}
		if _, ok := c.decls[n]; !ok {
			continue
		}
		need[n] = true
		work = append(work, c.deps[n]...)
	}
	return need
}

// Prelude returns the declarations needed by the given assertion strings, in creation order.
func (c *Ctx) Prelude(asserts []string) string {
	c.mu.Lock()
	defer c.mu.Unlock()
	need := map[string]bool{}
	var work []string
	for _, a := range asserts {
		work = append(work, symbolsOf(a)...)
	}
	for len(work) > 0 {
		n := work[len(work)-1]
		work = work[:len(work)-1]
		if need[n] {
			continue
		}
		if _, ok := c.decls[n]; !ok {
			continue
		}
		need[n] = true
		work = append(work, c.deps[n]...)
	}
	if c.index == nil {
		c.index = make(map[string]int, len(c.order))
	}
	for i := len(c.index); i < len(c.order); i++ {
		c.index[c.order[i]] = i
	}
	names := make([]string, 0, len(need))
	for n := range need {
		names = append(names, n)
	}
	sort.Slice(names, func(i, j int) bool { return c.index[names[i]] < c.index[names[j]] })
	var b strings.Builder
	for _, n := range names {
		b.WriteString(c.decls[n])
		b.WriteByte('\n')
	}
	return b.String()
}

// ---- constants

func mask(w int) uint64 {
	if w >= 64 {
		return ^uint64(0)
	}
	return (uint64(1) << uint(w)) - 1
}

func BVConst(v uint64, w int) *Term {
	v &= mask(w)
	if w > 64 {
		// only small constants are ever built at >64 bits
		return &Term{S: fmt.Sprintf("(_ bv%d %d)", v, w), Sort: SBV(w), Const: false}
	}
	var s string
	if w%4 == 0 {
		s = fmt.Sprintf("#x%0*x", w/4, v)
	} else {
		s = fmt.Sprintf("(_ bv%d %d)", v, w)
	}
	return &Term{S: s, Sort: SBV(w), Const: true, C: v}
}

var (
	True  = &Term{S: "true", Sort: SBool, Const: true, B: true}
	False = &Term{S: "false", Sort: SBool, Const: true, B: false}
)

func BoolConst(b bool) *Term {
	if b {
		return True
	}
	return False
}

func sext(v uint64, w int) int64 {
	if w >= 64 {
		return int64(v)
	}
	if v&(1<<uint(w-1)) != 0 {
		return int64(v | ^mask(w))
	}
	return int64(v)
}

// ---- boolean ops

func (c *Ctx) Not(a *Term) *Term {
	if a.Const {
		return BoolConst(!a.B)
	}
	if a.Op == "not" && len(a.Args) == 1 {
		return a.Args[0]
	}
	if strings.HasPrefix(a.S, "(not ") {
		return &Term{S: a.S[5 : len(a.S)-1], Sort: SBool}
	}
	r := c.mk("(not "+a.S+")", SBool)
	r.Op, r.Args = "not", []*Term{a}
	return r
}

func (c *Ctx) And(ts ...*Term) *Term {
	var parts []string
	var args []*Term
	seen := map[string]bool{}
	for _, t := range ts {
		if t.Const {
			if !t.B {
				return False
			}
			continue
		}
		if !seen[t.S] {
			seen[t.S] = true
			parts = append(parts, t.S)
			args = append(args, t)
		}
	}
	switch len(parts) {
	case 0:
		return True
	case 1:
		return args[0]
	}
	r := c.mk("(and "+strings.Join(parts, " ")+")", SBool)
	r.Op, r.Args = "and", args
	return r
}

func (c *Ctx) Or(ts ...*Term) *Term {
	var parts []string
	seen := map[string]bool{}
	for _, t := range ts {
		if t.Const {
			if t.B {
				return True
			}
			continue
		}
		if !seen[t.S] {
			seen[t.S] = true
			parts = append(parts, t.S)
		}
	}
	switch len(parts) {
	case 0:
		return False
	case 1:
		return &Term{S: parts[0], Sort: SBool}
	}
	return c.mk("(or "+strings.Join(parts, " ")+")", SBool)
}

func (c *Ctx) Implies(a, b *Term) *Term {
	if a.Const {
		if a.B {
			return b
		}
		return True
	}
	if b.Const {
		if b.B {
			return True
		}
		return c.Not(a)
	}
	return c.mk("(=> "+a.S+" "+b.S+")", SBool)
}

func (c *Ctx) Ite(cond, a, b *Term) *Term {
	if cond.Const {
		if cond.B {
			return a
		}
		return b
	}
	if a.S == b.S {
		return a
	}
	if a.Sort.K == KBool {
		if a.Const && b.Const {
			if a.B {
				return cond
			}
			return c.Not(cond)
		}
	}
	return c.mk("(ite "+cond.S+" "+a.S+" "+b.S+")", a.Sort)
}

func (c *Ctx) Eq(a, b *Term) *Term {
	if a.S == b.S {
		return True
	}
	if a.Const && b.Const {
		if a.Sort.K == KBool {
			return BoolConst(a.B == b.B)
		}
		return BoolConst(a.C == b.C)
	}
	if !a.Sort.Eq(b.Sort) {
		panic(fmt.Sprintf("Eq sort mismatch %s:%s vs %s:%s", a.S, a.Sort, b.S, b.Sort))
	}
	if a.Sort.K == KBool {
		if a.Const {
			if a.B {
				return b
			}
			return c.Not(b)
		}
		if b.Const {
			if b.B {
				return a
			}
			return c.Not(a)
		}
	}
	r := c.mk("(= "+a.S+" "+b.S+")", SBool)
	r.Op, r.Args = "=", []*Term{a, b}
	return r
}

// ---- bit-vector ops

func (c *Ctx) bin(op string, a, b *Term, f func(x, y uint64, w int) uint64) *Term {
	if a.Sort.K != KBV || b.Sort.K != KBV || a.Sort.W != b.Sort.W {
		panic(fmt.Sprintf("bv op %s sort mismatch %s:%s %s:%s", op, a.S, a.Sort, b.S, b.Sort))
	}
	w := a.Sort.W
	if a.Const && b.Const && f != nil && w <= 64 {
		return BVConst(f(a.C, b.C, w), w)
	}
	t := c.mk("("+op+" "+a.S+" "+b.S+")", a.Sort)
	t.Op, t.Args = op, []*Term{a, b}
	return t
}

func (c *Ctx) Add(a, b *Term) *Term {
	if a.Const && a.C == 0 {
		return b
	}
	if b.Const && b.C == 0 {
		return a
	}
	return c.bin("bvadd", a, b, func(x, y uint64, w int) uint64 { return x + y })
}
func (c *Ctx) Sub(a, b *Term) *Term {
	if b.Const && b.C == 0 {
		return a
	}
	if a.S == b.S {
		return BVConst(0, a.Sort.W)
	}
	if a.Op == "bvadd" && len(a.Args) == 2 {
		// (x + k) - x = k: the length of s[x : x+k]
		if a.Args[0].S == b.S {
			return a.Args[1]
		}
		if a.Args[1].S == b.S {
			return a.Args[0]
		}
	}
	return c.bin("bvsub", a, b, func(x, y uint64, w int) uint64 { return x - y })
}
func (c *Ctx) Mul(a, b *Term) *Term {
	if a.Const && a.C == 1 {
		return b
	}
	if b.Const && b.C == 1 {
		return a
	}
	if (a.Const && a.C == 0) || (b.Const && b.C == 0) {
		return BVConst(0, a.Sort.W)
	}
	return c.bin("bvmul", a, b, func(x, y uint64, w int) uint64 { return x * y })
}
func (c *Ctx) UDiv(a, b *Term) *Term {
	return c.bin("bvudiv", a, b, func(x, y uint64, w int) uint64 {
		if y == 0 {
			return mask(w)
		}
		return x / y
	})
}
func (c *Ctx) URem(a, b *Term) *Term {
	return c.bin("bvurem", a, b, func(x, y uint64, w int) uint64 {
		if y == 0 {
			return x
		}
		return x % y
	})
}
func (c *Ctx) SDiv(a, b *Term) *Term {
	if a.Const && b.Const && b.C != 0 && a.Sort.W <= 64 {
		x, y := sext(a.C, a.Sort.W), sext(b.C, a.Sort.W)
		if !(y == -1) {
			return BVConst(uint64(x/y), a.Sort.W)
		}
	}
	return c.bin("bvsdiv", a, b, nil)
}
func (c *Ctx) SRem(a, b *Term) *Term {
	if a.Const && b.Const && b.C != 0 && a.Sort.W <= 64 {
		x, y := sext(a.C, a.Sort.W), sext(b.C, a.Sort.W)
		if !(y == -1) {
			return BVConst(uint64(x%y), a.Sort.W)
		}
	}
	return c.bin("bvsrem", a, b, nil)
}
func (c *Ctx) BAnd(a, b *Term) *Term {
	return c.bin("bvand", a, b, func(x, y uint64, w int) uint64 { return x & y })
}
func (c *Ctx) BOr(a, b *Term) *Term {
	if a.Const && a.C == 0 {
		return b
	}
	if b.Const && b.C == 0 {
		return a
	}
	return c.bin("bvor", a, b, func(x, y uint64, w int) uint64 { return x | y })
}
func (c *Ctx) BXor(a, b *Term) *Term {
	return c.bin("bvxor", a, b, func(x, y uint64, w int) uint64 { return x ^ y })
}
func (c *Ctx) Shl(a, b *Term) *Term {
	return c.bin("bvshl", a, b, func(x, y uint64, w int) uint64 {
		if y >= uint64(w) {
			return 0
		}
		return x << y
	})
}
func (c *Ctx) LShr(a, b *Term) *Term {
	return c.bin("bvlshr", a, b, func(x, y uint64, w int) uint64 {
		if y >= uint64(w) {
			return 0
		}
		return (x & mask(w)) >> y
	})
}
func (c *Ctx) AShr(a, b *Term) *Term {
	return c.bin("bvashr", a, b, func(x, y uint64, w int) uint64 {
		s := sext(x, w)
		if y >= uint64(w) {
			y = uint64(w - 1)
		}
		return uint64(s >> y)
	})
}
func (c *Ctx) BNot(a *Term) *Term {
	if a.Const {
		return BVConst(^a.C, a.Sort.W)
	}
	return c.mk("(bvnot "+a.S+")", a.Sort)
}
func (c *Ctx) Neg(a *Term) *Term {
	if a.Const {
		return BVConst(-a.C, a.Sort.W)
	}
	return c.mk("(bvneg "+a.S+")", a.Sort)
}

func (c *Ctx) cmp(op string, a, b *Term, f func(x, y uint64, w int) bool) *Term {
	if a.Sort.K != KBV || b.Sort.K != KBV || a.Sort.W != b.Sort.W {
		panic(fmt.Sprintf("bv cmp %s sort mismatch %s:%s %s:%s", op, a.S, a.Sort, b.S, b.Sort))
	}
	if a.Const && b.Const && a.Sort.W <= 64 {
		return BoolConst(f(a.C, b.C, a.Sort.W))
	}
	return c.mk("("+op+" "+a.S+" "+b.S+")", SBool)
}
func (c *Ctx) ULt(a, b *Term) *Term {
	if a.S == b.S {
		return False
	}
	if b.Const && b.C == 0 {
		return False
	}
	return c.cmp("bvult", a, b, func(x, y uint64, w int) bool { return x < y })
}
func (c *Ctx) ULe(a, b *Term) *Term {
	if a.S == b.S {
		return True
	}
	if a.Const && a.C == 0 {
		return True
	}
	return c.cmp("bvule", a, b, func(x, y uint64, w int) bool { return x <= y })
}
func (c *Ctx) SLt(a, b *Term) *Term {
	if a.S == b.S {
		return False
	}
	return c.cmp("bvslt", a, b, func(x, y uint64, w int) bool { return sext(x, w) < sext(y, w) })
}
func (c *Ctx) SLe(a, b *Term) *Term {
	if a.S == b.S {
		return True
	}
	return c.cmp("bvsle", a, b, func(x, y uint64, w int) bool { return sext(x, w) <= sext(y, w) })
}

func (c *Ctx) ZExt(a *Term, w int) *Term {
	if a.Sort.W == w {
		return a
	}
	if a.Sort.W > w {
		return c.Extract(a, w-1, 0)
	}
	if a.Const && w <= 64 {
		return BVConst(a.C, w)
	}
	return c.mk(fmt.Sprintf("((_ zero_extend %d) %s)", w-a.Sort.W, a.S), SBV(w))
}
func (c *Ctx) SExt(a *Term, w int) *Term {
	if a.Sort.W == w {
		return a
	}
	if a.Sort.W > w {
		return c.Extract(a, w-1, 0)
	}
	if a.Const && w <= 64 {
		return BVConst(uint64(sext(a.C, a.Sort.W)), w)
	}
	return c.mk(fmt.Sprintf("((_ sign_extend %d) %s)", w-a.Sort.W, a.S), SBV(w))
}
func (c *Ctx) Extract(a *Term, hi, lo int) *Term {
	if hi-lo+1 == a.Sort.W {
		return a
	}
	if a.Const && a.Sort.W <= 64 {
		return BVConst(a.C>>uint(lo), hi-lo+1)
	}
	return c.mk(fmt.Sprintf("((_ extract %d %d) %s)", hi, lo, a.S), SBV(hi-lo+1))
}
func (c *Ctx) Concat(a, b *Term) *Term {
	w := a.Sort.W + b.Sort.W
	if a.Const && b.Const && w <= 64 {
		return BVConst(a.C<<uint(b.Sort.W)|b.C, w)
	}
	return c.mk("(concat "+a.S+" "+b.S+")", SBV(w))
}

// ---- arrays

func (c *Ctx) Select(arr, idx *Term) *Term {
	if arr.Sort.K != KArr {
		panic("select on non-array " + arr.S + " : " + arr.Sort.String())
	}
	if idx.Sort.K != KBV || idx.Sort.W != 64 {
		panic("select index not bv64: " + idx.S)
	}
	return c.mk("(select "+arr.S+" "+idx.S+")", arr.Sort.Elem)
}
func (c *Ctx) Store(arr, idx, v *Term) *Term {
	if arr.Sort.K != KArr {
		panic("store on non-array " + arr.S)
	}
	if !arr.Sort.Elem.Eq(v.Sort) {
		panic(fmt.Sprintf("store elem sort mismatch arr %s elem %s val %s:%s", arr.S, arr.Sort.Elem, v.S, v.Sort))
	}
	return c.mk("(store "+arr.S+" "+idx.S+" "+v.S+")", arr.Sort)
}
func (c *Ctx) ConstArr(so *Sort, v *Term) *Term {
	return c.mk("((as const "+so.String()+") "+v.S+")", so)
}

func (c *Ctx) ZeroOf(so *Sort) *Term {
	switch so.K {
	case KBool:
		return False
	case KBV:
		return BVConst(0, so.W)
	case KArr:
		return c.ConstArr(so, c.ZeroOf(so.Elem))
	}
	return c.Named("u_zero", SU)
}

func sortedKeys(m map[string]bool) []string {
	var ks []string
	for k := range m {
		ks = append(ks, k)
	}
	sort.Strings(ks)
	return ks
}
