package main

import (
	"fmt"
	"os"
	"go/ast"
	"go/token"
	"go/types"
	"sort"
	"strings"

	"golang.org/x/tools/go/ssa"
)

type FuncResult struct {
	Key         string
	Fn          *ssa.Function
	Obls        []*Obligation
	Errs        []string
	Assumptions []string
	Paths       int
	Restarts    int
	exec        *Exec
}

func newExec(w *World, fn *ssa.Function, con *Contract) *Exec {
	return &Exec{
		w: w, c: NewCtx(), fn: fn, con: con,
		lazyInit: map[*Obj]Value{}, named: map[string]*Obj{},
		loopHavoc: map[string]map[string]bool{}, loopRebase: map[string]map[string]bool{},
		assumptions: map[string]bool{}, maxPaths: 4000,
	}
}

func verifyFunction(w *World, con *Contract) *FuncResult {
	fn := con.Fn
	res := &FuncResult{Key: fnKey(fn), Fn: fn}
	var e *Exec
	havoc := map[string]map[string]bool{}
	for attempt := 0; attempt < 16; attempt++ {
		e = newExec(w, fn, con)
		e.loopHavoc = havoc
		e.runTop()
		if !e.restart {
			break
		}
		havoc = e.loopHavoc
		res.Restarts++
		if os.Getenv("GOVC_DEBUG") != "" {
			for k, hs := range havoc {
				fmt.Fprintf(os.Stderr, "restart %d: %s -> %v\n", res.Restarts, k, sortedKeys(hs))
			}
		}
	}
	if e.restart {
		e.errs = append(e.errs, "loop havoc set did not stabilise")
	}
	res.Obls = e.obls
	res.exec = e
	res.Errs = e.errs
	res.Paths = e.paths
	for a := range e.assumptions {
		res.Assumptions = append(res.Assumptions, a)
	}
	sort.Strings(res.Assumptions)
	return res
}

func (e *Exec) runTop() {
	defer func() {
		if r := recover(); r != nil {
			if u, ok := r.(unsupportedErr); ok {
				e.errs = append(e.errs, u.Error()+" (while setting up "+e.fn.String()+")")
				return
			}
			panic(r)
		}
	}()
	fn := e.fn
	s := &State{heap: &Heap{m: map[*Obj]Value{}}, candSet: map[string]bool{}, ex: e}
	f := &Frame{id: 0, fn: fn, block: fn.Blocks[0], env: map[ssa.Value]Value{}, isTop: true}
	e.entryVars = map[types.Object]Value{}
	if g := e.w.ghostGlobal(fn.Pkg); g != nil {
		gp := e.globalPtr(g).(*PtrV)
		e.ghostObj = gp.Ref.Obj
	}
	for i, p := range fn.Params {
		v := e.freshValS(s, p.Type(), "p."+p.Name())
		if pv, ok := v.(*PtrV); ok {
			// a pointer receiver is assumed non-nil; other pointer parameters may be nil unless the contract
			// requires otherwise. Distinct pointer parameters point to disjoint objects (assumption).
			if i == 0 && fn.Signature.Recv() != nil {
				pv.Nil = False
				e.note("pointer receivers are non-nil")
			}
			e.note("distinct pointer parameters point to pairwise disjoint objects")
		}
		f.env[p] = v
		e.paramVals = append(e.paramVals, v)
		if obj := p.Object(); obj != nil {
			e.entryVars[obj] = v
		}
	}
	for _, fv := range fn.FreeVars {
		v := e.freshValS(s, fv.Type(), "fv."+fv.Name())
		if pv, ok := v.(*PtrV); ok {
			pv.Nil = False
		}
		f.env[fv] = v
		if e.fvByName == nil {
			e.fvByName = map[string]Value{}
		}
		e.fvByName[fv.Name()] = v
		e.note("captured variables of a closure are unconstrained at entry")
	}
	s.frames = []*Frame{f}
	e.entryState = &State{heap: s.heap.clone(), candSet: map[string]bool{}, pure: 1, ex: e}
	for _, r := range e.con.Requires {
		var g *Term
		e.withPol(-1, func() { g = e.evalClauseEnvRes(s, f, r, e.entryVars, nil, nil) })
		s.assume(g)
	}
	e.emitProbe(s, "pre-sat")
	e.runAll(s)
}

func (w *World) ghostGlobal(p *ssa.Package) *ssa.Global {
	if p == nil {
		return nil
	}
	if g, ok := p.Members["verif_ghost"].(*ssa.Global); ok {
		return g
	}
	return nil
}

func (e *Exec) topReturn(s *State, f *Frame, res []Value, in *ssa.Return) {
	env := map[types.Object]Value{}
	for k, v := range e.entryVars {
		env[k] = v
	}
	rt := e.fn.Signature.Results()
	for i := 0; i < rt.Len(); i++ {
		env[rt.At(i)] = res[i]
	}
	old := &oldCtx{s: e.entryState, env: e.entryVars}
	rn := e.retOrdinal(in)
	s.trace = append(s.trace, fmt.Sprintf("%s: return #%d", e.posStr(in.Pos()), rn))
	from := len(e.obls)
	e.lazySMT = len(e.con.Ensures) >= 3
	for i, en := range e.con.Ensures {
		var g *Term
		e.withPol(1, func() { g = e.evalClauseEnvRes(s, nil, en, env, old, res) })
		e.emit(s, fmt.Sprintf("post.%d", i+1), g, en.Pos)
	}
	e.lazySMT = false
	e.batch(s, from)
	if e.con.HasModifies {
		e.frameCheck(s, env)
	}
	// vacuity probes: one per returning path (at most 64); they are solved one after the other until a
	// reachable return is found
	if e.retProbes < 400 {
		e.retProbes++
		e.emitProbe(s, fmt.Sprintf("reach.ret.%d", rn))
	}
}

func (e *Exec) retOrdinal(in *ssa.Return) int {
	n := 0
	for _, b := range e.fn.Blocks {
		for _, x := range b.Instrs {
			if r, ok := x.(*ssa.Return); ok {
				n++
				if r == in {
					return n
				}
			}
		}
	}
	return 0
}

// ---- modifies clauses

type modLoc struct {
	ref    *Ref
	ranged bool
	lo, hi *Term // absolute index range within the array at ref
}

func (e *Exec) modLocs(s *State, cl *Clause, env map[types.Object]Value, f *Frame) []modLoc {
	ev := &astEnv{e: e, s: s, f: f, vars: env, info: cl.Info, bound: map[types.Object]Value{}}
	s.pure++
	defer func() { s.pure-- }()
	var out []modLoc
	for _, x := range cl.Exprs {
		out = append(out, ev.modLoc(x)...)
	}
	return out
}

func (ev *astEnv) modLoc(x ast.Expr) []modLoc {
	e := ev.e
	c := e.c
	if p, ok := x.(*ast.ParenExpr); ok {
		return ev.modLoc(p.X)
	}
	if se, ok := x.(*ast.SliceExpr); ok {
		v := ev.eval(se.X)
		sv, ok := v.(*SliceV)
		if !ok {
			panic(unsupported("modifies range of non-slice"))
		}
		get := func(x ast.Expr, def *Term) *Term {
			if x == nil {
				return def
			}
			t := ev.typeOf(x)
			if isUntyped(t) {
				t = types.Typ[types.Int]
			}
			return e.toBV64(ev.eval(x).(*Term), t)
		}
		lo := get(se.Low, BVConst(0, 64))
		hi := get(se.High, sv.Len)
		if sv.Base == nil {
			return nil
		}
		return []modLoc{{ref: sv.Base, ranged: true, lo: c.Add(sv.Off, lo), hi: c.Add(sv.Off, hi)}}
	}
	t := ev.typeOf(x)
	switch t.Underlying().(type) {
	case *types.Slice:
		sv := ev.eval(x).(*SliceV)
		var out []modLoc
		if _, isField := x.(*ast.SelectorExpr); isField {
			// a slice-typed field: the header (base/len/cap) may change, and so may the contents
			out = append(out, modLoc{ref: ev.ref(x)})
		}
		if sv.Base != nil {
			out = append(out, modLoc{ref: sv.Base, ranged: true, lo: sv.Off, hi: c.Add(sv.Off, sv.Cap)})
		}
		return out
	}
	if st, ok := x.(*ast.StarExpr); ok {
		pv := ev.eval(st.X).(*PtrV)
		return []modLoc{{ref: pv.Ref}}
	}
	return []modLoc{{ref: ev.ref(x)}}
}

func (e *Exec) havocLocExpr(s *State, cl *Clause, x ast.Expr, env map[types.Object]Value) {
	c := e.c
	for _, ml := range e.modLocs(s, cl, env, nil) {
		if !ml.ranged {
			old := e.load(s, ml.ref)
			t := e.typeAt(ml.ref)
			var nv Value
			if t != nil {
				nv = e.freshLike(s, old, t, "mod."+ml.ref.Obj.Name)
			} else {
				nv = e.freshShape(old, "mod."+ml.ref.Obj.Name)
			}
			e.store(s, ml.ref, nv)
			continue
		}
		old := e.load(s, ml.ref)
		lo, hi := ml.lo, ml.hi
		nv := e.mapArr([]Value{old}, func(ts []*Term) *Term {
			o := ts[0]
			fresh := c.Fresh("mod", o.Sort)
			q := &Quant{forall: true, kind: quantIdx, always: true, arrays: []string{fresh.S}}
			q.body = func(i *Term) *Term {
				in := c.And(c.ULe(lo, i), c.ULt(i, hi))
				return c.Or(in, c.Eq(c.Select(fresh, i), c.Select(o, i)))
			}
			s.quants = append(s.quants, q)
			return fresh
		})
		e.store(s, ml.ref, nv)
	}
}

// typeAt returns the static type of the location r when derivable.
func (e *Exec) typeAt(r *Ref) types.Type {
	t := r.Obj.Typ
	if r.Obj.IsArr {
		if len(r.Path) == 0 {
			return nil
		}
	}
	arr := r.Obj.IsArr
	for _, pe := range r.Path {
		if arr {
			if pe.Index == nil {
				return nil
			}
			arr = false
			continue
		}
		switch u := t.Underlying().(type) {
		case *types.Struct:
			if pe.Index != nil {
				return nil
			}
			t = u.Field(pe.Field).Type()
		case *types.Array:
			if pe.Index == nil {
				return nil
			}
			t = u.Elem()
		default:
			return nil
		}
	}
	if arr {
		return nil
	}
	return t
}

func (e *Exec) freshShape(old Value, hint string) Value {
	switch o := old.(type) {
	case *Term:
		return e.c.Fresh(hint, o.Sort)
	case *StructV:
		n := &StructV{}
		for _, fv := range o.F {
			n.F = append(n.F, e.freshShape(fv, hint))
		}
		return n
	case *SoAV:
		n := &SoAV{Str: o.Str}
		for _, fv := range o.F {
			n.F = append(n.F, e.freshShape(fv, hint))
		}
		return n
	case *OpaqueArrV:
		return e.newOpaqueArr(o.Elem, hint, false)
	}
	return old
}

// frameCheck emits obligations that pre-existing objects changed only where the contract's modifies clauses allow.
func (e *Exec) frameCheck(s *State, env map[types.Object]Value) {
	var locs []modLoc
	for _, m := range e.con.Modifies {
		locs = append(locs, e.modLocs(e.entryStateFor(s), m, e.entryVars, nil)...)
	}
	var names []string
	byName := map[string]*Obj{}
	for o := range s.heap.m {
		if o.Birth != 0 || o.Global != nil {
			continue
		}
		if _, pre := e.named[o.Name]; !pre {
			continue
		}
		names = append(names, o.Name)
		byName[o.Name] = o
	}
	sort.Strings(names)
	n := 0
	for _, name := range names {
		o := byName[name]
		nv := s.heap.m[o]
		ov, ok := e.lazyInit[o]
		if !ok {
			continue // never read before being overwritten entirely: compare against a fresh initial value
		}
		e.frameDiff(s, o, nil, ov, nv, locs, &n)
	}
}

func (e *Exec) entryStateFor(s *State) *State { return e.entryState }

func pathHasPrefix(path, prefix []PElem) bool {
	if len(prefix) > len(path) {
		return false
	}
	for i := range prefix {
		if (prefix[i].Index == nil) != (path[i].Index == nil) {
			return false
		}
		if prefix[i].Index == nil && prefix[i].Field != path[i].Field {
			return false
		}
		if prefix[i].Index != nil && prefix[i].Index.S != path[i].Index.S {
			return false
		}
	}
	return true
}

func (e *Exec) frameDiff(s *State, o *Obj, path []PElem, ov, nv Value, locs []modLoc, n *int) {
	c := e.c
	if ov == nv {
		return
	}
	for _, l := range locs {
		if l.ref.Obj == o && !l.ranged && pathHasPrefix(path, l.ref.Path) {
			return
		}
	}
	switch a := ov.(type) {
	case *StructV:
		b, ok := nv.(*StructV)
		if !ok {
			return
		}
		for i := range a.F {
			e.frameDiff(s, o, append(append([]PElem{}, path...), PElem{Field: i}), a.F[i], b.F[i], locs, n)
		}
	case *SoAV:
		b, ok := nv.(*SoAV)
		if !ok {
			return
		}
		for i := range a.F {
			e.frameDiff(s, o, path, a.F[i], b.F[i], locs, n)
		}
	case *Term:
		b, ok := nv.(*Term)
		if !ok || a.S == b.S {
			return
		}
		*n++
		if a.Sort.K == KArr {
			sk := c.Fresh("frame_i", SBV(64))
			s.addCand(sk, false)
			var allowed []*Term
			for _, l := range locs {
				if l.ref.Obj == o && l.ranged && pathHasPrefix(path, l.ref.Path) {
					allowed = append(allowed, c.And(c.ULe(l.lo, sk), c.ULt(sk, l.hi)))
				}
			}
			g := c.Or(append(allowed, c.Eq(c.Select(b, sk), c.Select(a, sk)))...)
			e.emit(s, fmt.Sprintf("frame.%s", frameName(o, path)), g, token.NoPos)
			return
		}
		e.emit(s, fmt.Sprintf("frame.%s", frameName(o, path)), c.Eq(a, b), token.NoPos)
	case *SliceV:
		b, ok := nv.(*SliceV)
		if !ok {
			return
		}
		g := c.And(c.Eq(a.Off, b.Off), c.Eq(a.Len, b.Len), c.Eq(a.Cap, b.Cap))
		if a.Base != nil && b.Base != nil && a.Base.Obj != b.Base.Obj {
			g = False
		}
		e.emit(s, fmt.Sprintf("frame.%s", frameName(o, path)), g, token.NoPos)
	}
}

func frameName(o *Obj, path []PElem) string {
	var b strings.Builder
	b.WriteString(strings.TrimPrefix(o.Name, "p."))
	for _, pe := range path {
		if pe.Index == nil {
			if st, ok := derefStruct(o.Typ); ok && pe.Field < st.NumFields() && len(path) == 1 {
				b.WriteString("." + st.Field(pe.Field).Name())
			} else {
				fmt.Fprintf(&b, ".%d", pe.Field)
			}
		} else {
			b.WriteString("[i]")
		}
	}
	return b.String()
}

func derefStruct(t types.Type) (*types.Struct, bool) {
	st, ok := t.Underlying().(*types.Struct)
	return st, ok
}
