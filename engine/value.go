package main

// Symbolic value model. Pointers and slice bases are concrete references to
// abstract objects (Obj); data is symbolic (SMT terms).

import (
	"fmt"
	"go/types"
	"strings"

	"golang.org/x/tools/go/ssa"
)

type Value interface{}

// *Term is a scalar (BV / Bool) or, for arrays of scalars, an SMT array.

type StructV struct {
	F []Value
}

// SoAV is an array (fixed or slice backing) of structs: one array value per field.
type SoAV struct {
	Str bool // an array of strings: F = [byte arrays, offsets, lengths] and an element is a StringV
	F []Value
}

// OpaqueArrV is an array whose elements are not modelled (pointers, slices, maps ...).
type OpaqueArrV struct {
	ID   int
	Elem types.Type
	// Known remembers the values stored at constant indices since the last store at a symbolic index (which may
	// alias any of them); every other element is unconstrained on each read. Values are immutable: update copies.
	Known map[uint64]Value
	// for an array of pointers: the identity and non-nil-ness of each element (the pointee itself is a fresh
	// object on every load, so two loads of one element agree on identity but not on contents)
	IDs    *Term // Array BV64 -> BV64
	NonNil *Term // Array BV64 -> Bool
}

type PElem struct {
	Field int   // >=0 field index
	Index *Term // non-nil: array index (BV64)
}

type Ref struct {
	Obj  *Obj
	Path []PElem
}

func (r *Ref) extend(e PElem) *Ref {
	p := make([]PElem, len(r.Path)+1)
	copy(p, r.Path)
	p[len(r.Path)] = e
	return &Ref{Obj: r.Obj, Path: p}
}

func (r *Ref) String() string {
	var b strings.Builder
	b.WriteString(r.Obj.Name)
	for _, e := range r.Path {
		if e.Index != nil {
			b.WriteString("[" + e.Index.S + "]")
		} else {
			fmt.Fprintf(&b, ".%d", e.Field)
		}
	}
	return b.String()
}

type Obj struct {
	ID    int
	Name  string     // structural, path-independent name (key for loop havoc sets)
	Typ   types.Type // type of the whole object; for slice backings: the element type with IsArr
	IsArr bool       // object is an unbounded array of Typ (slice backing / string bytes)
	Birth int        // state step stamp at creation (0 = pre-existing)
	Global *ssa.Global
	Pointee bool // the object a pointer loaded from an array of pointers points to
}

type PtrV struct {
	Ref *Ref // nil when pointer is opaque/unknown
	Nil *Term
	ID  *Term // BV64 identity for opaque comparisons (may be nil)
	raw *addrInfo // set for unsafe.SliceData results
}

type SliceV struct {
	Base *Ref // reference to an array value (element i at Base.Path+Index(Off+i))
	Off  *Term
	Len  *Term
	Cap  *Term
	Nil  *Term
	Elem types.Type
}

type StringV struct {
	Arr *Term // Array BV64 -> BV8
	Off *Term
	Len *Term
	Lit *string
}

type IfaceV struct {
	Nil *Term
	ID  *Term      // BV64 identity of the dynamic value (for == on errors)
	Typ types.Type // concrete dynamic type when known
	Val Value      // concrete value when known
}

type FuncV struct {
	Fn   *ssa.Function
	Free []Value
	Nil  *Term
	Name string // for opaque function values (parameters): name for extern lookup
}

type TupleV []Value

type OpaqueV struct {
	Typ types.Type
	ID  *Term // BV64
	Nil *Term
}

// ---- sorts of Go types

func isScalar(t types.Type) bool {
	switch u := t.Underlying().(type) {
	case *types.Basic:
		return u.Info()&(types.IsInteger|types.IsBoolean|types.IsFloat) != 0 || u.Kind() == types.UnsafePointer
	}
	return false
}

func intWidth(b *types.Basic) int {
	switch b.Kind() {
	case types.Int8, types.Uint8:
		return 8
	case types.Int16, types.Uint16:
		return 16
	case types.Int32, types.Uint32, types.Float32:
		return 32
	case types.UntypedRune:
		return 32
	}
	return 64
}

func isSigned(t types.Type) bool {
	if b, ok := t.Underlying().(*types.Basic); ok {
		return b.Info()&types.IsInteger != 0 && b.Info()&types.IsUnsigned == 0
	}
	return false
}

func isUnsigned(t types.Type) bool {
	if b, ok := t.Underlying().(*types.Basic); ok {
		return b.Info()&types.IsUnsigned != 0
	}
	return false
}

func isFloat(t types.Type) bool {
	if b, ok := t.Underlying().(*types.Basic); ok {
		return b.Info()&types.IsFloat != 0
	}
	return false
}

func isString(t types.Type) bool {
	if b, ok := t.Underlying().(*types.Basic); ok {
		return b.Info()&types.IsString != 0
	}
	return false
}

func scalarSort(t types.Type) *Sort {
	b := t.Underlying().(*types.Basic)
	if b.Info()&types.IsBoolean != 0 {
		return SBool
	}
	return SBV(intWidth(b))
}

// arrSortOf returns the SMT sort used for an array of t when t is scalar or a
// (nested) fixed array of scalars; nil otherwise.
func elemSort(t types.Type) *Sort {
	if isScalar(t) {
		return scalarSort(t)
	}
	if a, ok := t.Underlying().(*types.Array); ok {
		if es := elemSort(a.Elem()); es != nil {
			return SArr(es)
		}
	}
	return nil
}

// ---- heap

type Heap struct {
	m      map[*Obj]Value
	shared bool
}

func (h *Heap) clone() *Heap {
	n := &Heap{m: make(map[*Obj]Value, len(h.m)+4)}
	for k, v := range h.m {
		n.m[k] = v
	}
	return n
}

// navigate reads the value at path inside v.
func (e *Exec) navigate(v Value, path []PElem, t types.Type) Value {
	for i, pe := range path {
		_ = i
		switch x := v.(type) {
		case *StructV:
			if pe.Index != nil {
				panic(unsupported("index into struct value"))
			}
			v = x.F[pe.Field]
		case *SoAV:
			if pe.Index == nil {
				panic(unsupported("field of SoA without index"))
			}
			if x.Str {
				sv := &StringV{Arr: e.c.Select(x.F[0].(*Term), pe.Index), Off: e.c.Select(x.F[1].(*Term), pe.Index), Len: e.c.Select(x.F[2].(*Term), pe.Index)}
				// type invariant of a string element: its length is a valid length
				if e.strLenAx == nil {
					e.strLenAx = map[string]bool{}
				}
				if !e.strLenAx[sv.Len.S] {
					e.strLenAx[sv.Len.S] = true
					e.axiom(nil, e.c.ULe(sv.Len, BVConst(maxCap, 64)))
				}
				v = sv
				continue
			}
			s := &StructV{F: make([]Value, len(x.F))}
			for k, fa := range x.F {
				s.F[k] = e.navigate(fa, []PElem{{Index: pe.Index}}, nil)
			}
			v = s
		case *Term:
			if pe.Index == nil {
				panic(unsupported("field of term value"))
			}
			if x.Sort.K != KArr {
				panic(unsupported("index into non-array term " + x.S))
			}
			v = e.c.Select(x, pe.Index)
		case *OpaqueArrV:
			if pe.Index != nil && pe.Index.Const {
				if kv, ok := x.Known[pe.Index.C]; ok {
					v = kv
					continue
				}
			}
			fv := e.freshVal(x.Elem, "opq")
			if pv, ok := fv.(*PtrV); ok && x.IDs != nil && pe.Index != nil && i == len(path)-1 {
				id := e.c.Select(x.IDs, pe.Index)
				if pv.Ref != nil && len(pv.Ref.Path) == 0 {
					// what the pointee holds is a function of the pointer's identity, until something is stored
					// through such a pointer (two loads of one element then see the same bytes)
					o := pv.Ref.Obj
					o.Pointee = true
					if es := elemSort(o.Typ); es != nil && !o.IsArr {
						e.lazyInit[o] = e.c.UF(fmt.Sprintf("deref_%s_%d", o.Typ.String(), e.pteeEpoch), es, id)
					}
				}
				return &PtrV{Ref: pv.Ref, ID: id, Nil: e.c.Not(e.c.Select(x.NonNil, pe.Index))}
			}
			if sv, ok := fv.(*SliceV); ok && x.NonNil != nil && pe.Index != nil && i == len(path)-1 {
				// an array of slices: which elements are nil is remembered (a nil slice has length 0)
				nn := e.c.Select(x.NonNil, pe.Index)
				e.axiom(nil, e.c.Implies(e.c.Not(nn), e.c.Eq(sv.Len, BVConst(0, 64))))
				return &SliceV{Base: sv.Base, Off: sv.Off, Len: sv.Len, Cap: sv.Cap, Nil: e.c.Not(nn), Elem: sv.Elem}
			}
			return fv
		case *StringV:
			// string stored as struct-like leaf inside SoA: not navigable
			panic(unsupported("navigate into string"))
		default:
			panic(unsupported(fmt.Sprintf("navigate into %T", v)))
		}
	}
	return v
}

// update returns v with the value at path replaced by nv.
func (e *Exec) update(v Value, path []PElem, nv Value) Value {
	if len(path) == 0 {
		return nv
	}
	pe := path[0]
	switch x := v.(type) {
	case *StructV:
		n := &StructV{F: make([]Value, len(x.F))}
		copy(n.F, x.F)
		n.F[pe.Field] = e.update(x.F[pe.Field], path[1:], nv)
		return n
	case *SoAV:
		if pe.Index == nil {
			panic(unsupported("SoA update without index"))
		}
		n := &SoAV{F: make([]Value, len(x.F)), Str: x.Str}
		copy(n.F, x.F)
		if x.Str {
			sv, ok := nv.(*StringV)
			if !ok || len(path) != 1 {
				panic(unsupported("string array element store"))
			}
			n.F[0] = e.c.Store(x.F[0].(*Term), pe.Index, sv.Arr)
			n.F[1] = e.c.Store(x.F[1].(*Term), pe.Index, sv.Off)
			n.F[2] = e.c.Store(x.F[2].(*Term), pe.Index, sv.Len)
			return n
		}
		if len(path) == 1 {
			sv, ok := nv.(*StructV)
			if !ok {
				panic(unsupported("SoA element store of non-struct"))
			}
			for k := range x.F {
				n.F[k] = e.update(x.F[k], []PElem{{Index: pe.Index}}, sv.F[k])
			}
			return n
		}
		f := path[1]
		if f.Index != nil {
			panic(unsupported("SoA nested index"))
		}
		rest := append([]PElem{{Index: pe.Index}}, path[2:]...)
		n.F[f.Field] = e.update(x.F[f.Field], rest, nv)
		return n
	case *Term:
		if pe.Index == nil || x.Sort.K != KArr {
			panic(unsupported("term update"))
		}
		if len(path) == 1 {
			t, ok := nv.(*Term)
			if !ok {
				panic(unsupported(fmt.Sprintf("array element store of %T", nv)))
			}
			return e.c.Store(x, pe.Index, t)
		}
		inner := e.c.Select(x, pe.Index)
		ni := e.update(inner, path[1:], nv).(*Term)
		return e.c.Store(x, pe.Index, ni)
	case *OpaqueArrV:
		n := &OpaqueArrV{ID: x.ID, Elem: x.Elem, IDs: x.IDs, NonNil: x.NonNil}
		if pv, ok := nv.(*PtrV); ok && x.IDs != nil && pe.Index != nil && len(path) == 1 {
			n.IDs = e.c.Store(x.IDs, pe.Index, e.ptrIdent(pv))
			n.NonNil = e.c.Store(x.NonNil, pe.Index, e.c.Not(pv.Nil))
		} else if x.IDs != nil && len(path) == 1 {
			n.IDs, n.NonNil = e.c.Fresh("pid", x.IDs.Sort), e.c.Fresh("pnn", x.NonNil.Sort)
		} else if sv, ok := nv.(*SliceV); ok && x.NonNil != nil && pe.Index != nil && len(path) == 1 {
			n.NonNil = e.c.Store(x.NonNil, pe.Index, e.c.Not(sv.Nil))
		} else if x.NonNil != nil && len(path) == 1 {
			n.NonNil = e.c.Fresh("pnn", x.NonNil.Sort)
		}
		if pe.Index != nil && pe.Index.Const && len(path) == 1 {
			n.Known = make(map[uint64]Value, len(x.Known)+1)
			for k, kv := range x.Known {
				n.Known[k] = kv
			}
			n.Known[pe.Index.C] = nv
		}
		return n
	}
	panic(unsupported(fmt.Sprintf("update into %T", v)))
}

type unsupportedErr struct{ msg string }

func unsupported(msg string) unsupportedErr { return unsupportedErr{msg} }
func (u unsupportedErr) Error() string      { return "unsupported: " + u.msg }

// addrInfo ties a symbolic machine address (uintptr) to an element of a byte array.
type addrInfo struct {
	base   *Ref  // the array
	idx    *Term // element index (absolute, within the backing array)
	lo, hi *Term // the slice's extent within the backing array [lo, hi)
}

// ptrIdent is the identity an opaque comparison (or an uninterpreted function) knows a pointer by.
func (e *Exec) ptrIdent(p *PtrV) *Term {
	switch {
	case p.ID != nil:
		return p.ID
	case p.Ref != nil && len(p.Ref.Path) == 0:
		return BVConst(uint64(p.Ref.Obj.ID), 64)
	}
	return e.c.Fresh("pid", SBV(64))
}

// newOpaqueArr makes an array value whose elements are not modelled; pointers keep identity and nil-ness.
func (e *Exec) newOpaqueArr(elem types.Type, hint string, zero bool) *OpaqueArrV {
	e.nobj++
	a := &OpaqueArrV{ID: e.nobj, Elem: elem}
	if _, ok := elem.Underlying().(*types.Pointer); ok {
		if zero {
			a.IDs, a.NonNil = e.c.ZeroOf(SArr(SBV(64))), e.c.ZeroOf(SArr(SBool))
		} else {
			a.IDs, a.NonNil = e.c.Fresh(hint+".pid", SArr(SBV(64))), e.c.Fresh(hint+".pnn", SArr(SBool))
		}
	}
	if _, ok := elem.Underlying().(*types.Slice); ok {
		if zero {
			a.NonNil = e.c.ZeroOf(SArr(SBool))
		} else {
			a.NonNil = e.c.Fresh(hint+".snn", SArr(SBool))
		}
	}
	return a
}
