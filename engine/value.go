package main

// Symbolic value model. Pointers and slice bases are concrete references to
// abstract objects (Obj); data is symbolic (SMT terms).

import (
	"fmt"
	"go/types"
	"strings"

	"golang.org/x/tools/go/ssa"
)

type Value interface{}

// *Term is a scalar (BV / Bool) or, for arrays of scalars, an SMT array.

type StructV struct {
	F []Value
}

// SoAV is an array (fixed or slice backing) of structs: one array value per field.
type SoAV struct {
	Str bool // an array of strings: F = [byte arrays, offsets, lengths] and an element is a StringV
	F []Value
}

// OpaqueArrV is an array whose elements are not modelled (pointers, slices, maps ...).
type OpaqueArrV struct {
	ID   int
	Elem types.Type
}

type PElem struct {
	Field int   // >=0 field index
	Index *Term // non-nil: array index (BV64)
}

type Ref struct {
	Obj  *Obj
	Path []PElem
}

func (r *Ref) extend(e PElem) *Ref {
	p := make([]PElem, len(r.Path)+1)
	copy(p, r.Path)
	p[len(r.Path)] = e
	return &Ref{Obj: r.Obj, Path: p}
}

func (r *Ref) String() string {
	var b strings.Builder
	b.WriteString(r.Obj.Name)
	for _, e := range r.Path {
		if e.Index != nil {
			b.WriteString("[" + e.Index.S + "]")
		} else {
			fmt.Fprintf(&b, ".%d", e.Field)
		}
	}
	return b.String()
}

type Obj struct {
	ID    int
	Name  string     // structural, path-independent name (key for loop havoc sets)
	Typ   types.Type // type of the whole object; for slice backings: the element type with IsArr
	IsArr bool       // object is an unbounded array of Typ (slice backing / string bytes)
	Birth int        // state step stamp at creation (0 = pre-existing)
	Global *ssa.Global
}

type PtrV struct {
	Ref *Ref // nil when pointer is opaque/unknown
	Nil *Term
	ID  *Term // BV64 identity for opaque comparisons (may be nil)
	raw *addrInfo // set for unsafe.SliceData results
}

type SliceV struct {
	Base *Ref // reference to an array value (element i at Base.Path+Index(Off+i))
	Off  *Term
	Len  *Term
	Cap  *Term
	Nil  *Term
	Elem types.Type
}

type StringV struct {
	Arr *Term // Array BV64 -> BV8
	Off *Term
	Len *Term
	Lit *string
}

type IfaceV struct {
	Nil *Term
	ID  *Term      // BV64 identity of the dynamic value (for == on errors)
	Typ types.Type // concrete dynamic type when known
	Val Value      // concrete value when known
}

type FuncV struct {
	Fn   *ssa.Function
	Free []Value
	Nil  *Term
	Name string // for opaque function values (parameters): name for extern lookup
}

type TupleV []Value

type OpaqueV struct {
	Typ types.Type
	ID  *Term // BV64
	Nil *Term
}

// ---- sorts of Go types

func isScalar(t types.Type) bool {
	switch u := t.Underlying().(type) {
	case *types.Basic:
		return u.Info()&(types.IsInteger|types.IsBoolean|types.IsFloat) != 0 || u.Kind() == types.UnsafePointer
	}
	return false
}

func intWidth(b *types.Basic) int {
	switch b.Kind() {
	case types.Int8, types.Uint8:
		return 8
	case types.Int16, types.Uint16:
		return 16
	case types.Int32, types.Uint32, types.Float32:
		return 32
	case types.UntypedRune:
		return 32
	}
	return 64
}

func isSigned(t types.Type) bool {
	if b, ok := t.Underlying().(*types.Basic); ok {
		return b.Info()&types.IsInteger != 0 && b.Info()&types.IsUnsigned == 0
	}
	return false
}

func isUnsigned(t types.Type) bool {
	if b, ok := t.Underlying().(*types.Basic); ok {
		return b.Info()&types.IsUnsigned != 0
	}
	return false
}

func isFloat(t types.Type) bool {
	if b, ok := t.Underlying().(*types.Basic); ok {
		return b.Info()&types.IsFloat != 0
	}
	return false
}

func isString(t types.Type) bool {
	if b, ok := t.Underlying().(*types.Basic); ok {
		return b.Info()&types.IsString != 0
	}
	return false
}

func scalarSort(t types.Type) *Sort {
	b := t.Underlying().(*types.Basic)
	if b.Info()&types.IsBoolean != 0 {
		return SBool
	}
	return SBV(intWidth(b))
}

// arrSortOf returns the SMT sort used for an array of t when t is scalar or a
// (nested) fixed array of scalars; nil otherwise.
func elemSort(t types.Type) *Sort {
	if isScalar(t) {
		return scalarSort(t)
	}
	if a, ok := t.Underlying().(*types.Array); ok {
		if es := elemSort(a.Elem()); es != nil {
			return SArr(es)
		}
	}
	return nil
}

// ---- heap

type Heap struct {
	m      map[*Obj]Value
	shared bool
}

func (h *Heap) clone() *Heap {
	n := &Heap{m: make(map[*Obj]Value, len(h.m)+4)}
	for k, v := range h.m {
		n.m[k] = v
	}
	return n
}

// navigate reads the value at path inside v.
func (e *Exec) navigate(v Value, path []PElem, t types.Type) Value {
	for i, pe := range path {
		_ = i
		switch x := v.(type) {
		case *StructV:
			if pe.Index != nil {
				panic(unsupported("index into struct value"))
			}
			v = x.F[pe.Field]
		case *SoAV:
			if pe.Index == nil {
				panic(unsupported("field of SoA without index"))
			}
			if x.Str {
				sv := &StringV{Arr: e.c.Select(x.F[0].(*Term), pe.Index), Off: e.c.Select(x.F[1].(*Term), pe.Index), Len: e.c.Select(x.F[2].(*Term), pe.Index)}
				// type invariant of a string element: its length is a valid length
				if e.strLenAx == nil {
					e.strLenAx = map[string]bool{}
				}
				if !e.strLenAx[sv.Len.S] {
					e.strLenAx[sv.Len.S] = true
					e.axiom(nil, e.c.ULe(sv.Len, BVConst(maxCap, 64)))
				}
				v = sv
				continue
			}
			s := &StructV{F: make([]Value, len(x.F))}
			for k, fa := range x.F {
				s.F[k] = e.navigate(fa, []PElem{{Index: pe.Index}}, nil)
			}
			v = s
		case *Term:
			if pe.Index == nil {
				panic(unsupported("field of term value"))
			}
			if x.Sort.K != KArr {
				panic(unsupported("index into non-array term " + x.S))
			}
			v = e.c.Select(x, pe.Index)
		case *OpaqueArrV:
			return e.freshVal(x.Elem, "opq")
		case *StringV:
			// string stored as struct-like leaf inside SoA: not navigable
			panic(unsupported("navigate into string"))
		default:
			panic(unsupported(fmt.Sprintf("navigate into %T", v)))
		}
	}
	return v
}

// update returns v with the value at path replaced by nv.
func (e *Exec) update(v Value, path []PElem, nv Value) Value {
	if len(path) == 0 {
		return nv
	}
	pe := path[0]
	switch x := v.(type) {
	case *StructV:
		n := &StructV{F: make([]Value, len(x.F))}
		copy(n.F, x.F)
		n.F[pe.Field] = e.update(x.F[pe.Field], path[1:], nv)
		return n
	case *SoAV:
		if pe.Index == nil {
			panic(unsupported("SoA update without index"))
		}
		n := &SoAV{F: make([]Value, len(x.F)), Str: x.Str}
		copy(n.F, x.F)
		if x.Str {
			sv, ok := nv.(*StringV)
			if !ok || len(path) != 1 {
				panic(unsupported("string array element store"))
			}
			n.F[0] = e.c.Store(x.F[0].(*Term), pe.Index, sv.Arr)
			n.F[1] = e.c.Store(x.F[1].(*Term), pe.Index, sv.Off)
			n.F[2] = e.c.Store(x.F[2].(*Term), pe.Index, sv.Len)
			return n
		}
		if len(path) == 1 {
			sv, ok := nv.(*StructV)
			if !ok {
				panic(unsupported("SoA element store of non-struct"))
			}
			for k := range x.F {
				n.F[k] = e.update(x.F[k], []PElem{{Index: pe.Index}}, sv.F[k])
			}
			return n
		}
		f := path[1]
		if f.Index != nil {
			panic(unsupported("SoA nested index"))
		}
		rest := append([]PElem{{Index: pe.Index}}, path[2:]...)
		n.F[f.Field] = e.update(x.F[f.Field], rest, nv)
		return n
	case *Term:
		if pe.Index == nil || x.Sort.K != KArr {
			panic(unsupported("term update"))
		}
		if len(path) == 1 {
			t, ok := nv.(*Term)
			if !ok {
				panic(unsupported(fmt.Sprintf("array element store of %T", nv)))
			}
			return e.c.Store(x, pe.Index, t)
		}
		inner := e.c.Select(x, pe.Index)
		ni := e.update(inner, path[1:], nv).(*Term)
		return e.c.Store(x, pe.Index, ni)
	case *OpaqueArrV:
		return x
	}
	panic(unsupported(fmt.Sprintf("update into %T", v)))
}

type unsupportedErr struct{ msg string }

func unsupported(msg string) unsupportedErr { return unsupportedErr{msg} }
func (u unsupportedErr) Error() string      { return "unsupported: " + u.msg }

// addrInfo ties a symbolic machine address (uintptr) to an element of a byte array.
type addrInfo struct {
	base   *Ref  // the array
	idx    *Term // element index (absolute, within the backing array)
	lo, hi *Term // the slice's extent within the backing array [lo, hi)
}
