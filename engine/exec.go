package main

// Path-wise symbolic executor over go/ssa (NaiveForm) that emits proof obligations.

import (
	"fmt"
	"go/constant"
	"go/token"
	"go/types"
	"sort"
	"strings"

	"golang.org/x/tools/go/ssa"
)

type Obligation struct {
	Name   string // <func>#<kind>
	Kind   string
	Fn     string
	Pos    string
	SMT    string // full query; unsat = discharged
	SMTLight string // same without quantifier-instantiation axioms (tried first)
	Trivial bool  // goal folded to true
	Trace  []string
	Goal   string
	Probe  bool // vacuity probe: expected sat
	// results
	Status string // unsat / sat / unknown / timeout
	Solver string
	Secs   float64
	Model  string
	Replayed   bool
	ReplayNote string
	ReplaySrc  string
	BatchSMT   string // query for the conjunction of a group of goals sharing one path (tried first)
	lazy       func() // builds SMT/SMTLight on demand (members of a batch are only built when the batch fails)
	goalTerm   *Term
	batchDone  bool
}

type Frame struct {
	id     int
	fn     *ssa.Function
	block  *ssa.BasicBlock
	prev   *ssa.BasicBlock
	ip     int
	env    map[ssa.Value]Value
	defers []deferRec
	call   ssa.Value // value in caller to receive the result (nil for top)
	params []Value
	entryHeap *Heap // snapshot at entry (for old() in callee ensures when verifying top)
	isTop  bool
	loopDec map[*loopInfo]*Term // variant value at loop head
	pureRet *[]pureResult
	unroll      int
	unrollCount map[*loopInfo]int
	loopEntry   map[*loopInfo]*State // snapshot of the state at the moment each loop was entered (loopold)
}

type deferRec struct {
	fnv  Value
	args []Value
	instr *ssa.Defer
}

type pureResult struct {
	pc  []*Term
	val Value
}

type loopInst struct {
	li        *loopInfo
	key       string
	entryStep int
	frameID   int
}

type State struct {
	frames  []*Frame
	heap    *Heap
	pc      []*Term
	cands   []cand
	candSet map[string]bool
	ex      *Exec
	quants  []*Quant
	trace   []string
	step    int
	loops   []*loopInst
	pure    int // >0 inside pure evaluation
	pcBase  int
	dead    bool
	nframes int
	axioms  []*Term
	rangeApps []*rangeApp
	facts   map[string]bool
	known   map[string]uint64
	factsShared bool
	tainted map[*Obj]bool
	pcTag   []string // parallel to pc: "invN" for an assumed loop invariant, "" otherwise
	prevMapEpoch int // the epoch before the call being made (call-site assertions are evaluated in it)
	mapEpoch int     // bumped whenever a map may have been mutated: len(m) is stable for a map identity within an epoch
	curTag  string
}

func (s *State) clone() *State {
	n := *s
	n.frames = make([]*Frame, len(s.frames))
	for i, f := range s.frames {
		nf := *f
		nf.env = make(map[ssa.Value]Value, len(f.env)+8)
		for k, v := range f.env {
			nf.env[k] = v
		}
		nf.defers = append([]deferRec(nil), f.defers...)
		if f.loopDec != nil {
			nf.loopDec = map[*loopInfo]*Term{}
			for k, v := range f.loopDec {
				nf.loopDec[k] = v
			}
		}
		if f.loopEntry != nil {
			nf.loopEntry = map[*loopInfo]*State{}
			for k, v := range f.loopEntry {
				nf.loopEntry[k] = v
			}
		}
		if f.unrollCount != nil {
			nf.unrollCount = map[*loopInfo]int{}
			for k, v := range f.unrollCount {
				nf.unrollCount[k] = v
			}
		}
		n.frames[i] = &nf
	}
	n.heap = s.heap.clone()
	n.pc = append([]*Term(nil), s.pc...)
	n.pcTag = append([]string(nil), s.pcTag...)
	n.cands = append([]cand(nil), s.cands...)
	n.candSet = make(map[string]bool, len(s.candSet))
	for k := range s.candSet {
		n.candSet[k] = true
	}
	n.quants = append([]*Quant(nil), s.quants...)
	s.factsShared = true
	n.factsShared = true
	if s.tainted != nil {
		n.tainted = make(map[*Obj]bool, len(s.tainted))
		for k := range s.tainted {
			n.tainted[k] = true
		}
	}
	n.axioms = append([]*Term(nil), s.axioms...)
	n.rangeApps = append([]*rangeApp(nil), s.rangeApps...)
	n.trace = append([]string(nil), s.trace...)
	n.loops = append([]*loopInst(nil), s.loops...)
	return &n
}

func (s *State) top() *Frame { return s.frames[len(s.frames)-1] }

func (s *State) assume(t *Term) {
	if t.Const && t.B {
		return
	}
	s.pc = append(s.pc, t)
	s.pcTag = append(s.pcTag, s.curTag)
	s.learn(t, true, 0)
}

// learn records cheap syntactic facts from an assumed formula (used only to prune infeasible branches).
func (s *State) learn(t *Term, val bool, depth int) {
	if depth > 6 || t.Const {
		return
	}
	if s.facts == nil {
		s.facts = map[string]bool{}
		s.known = map[string]uint64{}
	} else if s.factsShared {
		nf := make(map[string]bool, len(s.facts)+8)
		for k, v := range s.facts {
			nf[k] = v
		}
		nk := make(map[string]uint64, len(s.known)+8)
		for k, v := range s.known {
			nk[k] = v
		}
		s.facts, s.known, s.factsShared = nf, nk, false
	}
	s.facts[t.S] = val
	switch t.Op {
	case "and":
		if val {
			for _, a := range t.Args {
				s.learn(a, true, depth+1)
			}
		}
	case "not":
		s.learn(t.Args[0], !val, depth+1)
	case "=":
		if val {
			a, b := t.Args[0], t.Args[1]
			if b.Const && b.Sort.K == KBV && !a.Const {
				s.known[a.S] = b.C
			} else if a.Const && a.Sort.K == KBV && !b.Const {
				s.known[b.S] = a.C
			}
		}
	}
}

// truth decides a branch condition from the recorded facts: +1 true, -1 false, 0 unknown.
func (s *State) truth(t *Term, depth int) int {
	if t.Const {
		if t.B {
			return 1
		}
		return -1
	}
	if depth > 6 || s.facts == nil {
		return 0
	}
	if v, ok := s.facts[t.S]; ok {
		if v {
			return 1
		}
		return -1
	}
	switch t.Op {
	case "not":
		return -s.truth(t.Args[0], depth+1)
	case "and":
		all := 1
		for _, a := range t.Args {
			switch s.truth(a, depth+1) {
			case -1:
				return -1
			case 0:
				all = 0
			}
		}
		return all
	case "=":
		a, b := t.Args[0], t.Args[1]
		if a.Sort.K == KBV {
			va, oka := a.C, a.Const
			if !oka {
				va, oka = s.known[a.S]
			}
			vb, okb := b.C, b.Const
			if !okb {
				vb, okb = s.known[b.S]
			}
			if oka && okb {
				if va == vb {
					return 1
				}
				return -1
			}
		}
	}
	return 0
}

type cand struct {
	t      *Term
	signed bool
}

func (s *State) axiom(t *Term) {
	if t.Const && t.B {
		return
	}
	s.axioms = append(s.axioms, t)
	if s.ex != nil && s.ex.sink != nil {
		s.ex.sink.axioms = append(s.ex.sink.axioms, t)
	}
}

// addCand registers an index-like integer term as a quantifier instantiation candidate.
func (s *State) addCand(t *Term, signed bool) {
	if t == nil || t.Sort.K != KBV || t.Const || t.Sort.W < 16 || t.Sort.W > 64 {
		return
	}
	if s.pure > 0 && !strings.HasPrefix(t.S, "sk!") {
		return // values computed inside specifications are not index candidates
	}
	if s.ex != nil && s.ex.sink != nil && !s.ex.sink.seen[t.S] {
		s.ex.sink.seen[t.S] = true
		s.ex.sink.cands = append(s.ex.sink.cands, cand{t, signed})
	}
	if len(s.cands) >= 200 {
		return
	}
	if !s.candSet[t.S] {
		s.candSet[t.S] = true
		s.cands = append(s.cands, cand{t, signed})
	}
}

func (s *State) isCand(t *Term) bool { return s.candSet[t.S] }

type querySink struct {
	quants []*Quant
	axioms []*Term
	cands  []cand
	seen   map[string]bool
}

type Exec struct {
	w        *World
	mulPairs map[string][2]*Term // (hi|lo) of a bits.Mul64 result -> its operands
	pteeEpoch int // bumped by every store through a pointer that was loaded from an array of pointers
	epochs   int
	mapLens  map[string]*Term
	c        *Ctx
	fn       *ssa.Function
	con      *Contract
	obls     []*Obligation
	lazyInit map[*Obj]Value
	named    map[string]*Obj
	nobj     int
	loopHavoc map[string]map[string]bool // loop key -> object names to havoc
	loopRebase map[string]map[string]bool
	restart  bool
	assumptions map[string]bool
	work     []*State
	paths    int
	retPCs   [][]*Term
	quantN   int
	oblCount map[string]int
	maxPaths int
	errs     []string
	entryVars map[types.Object]Value
	entryHeap *Heap
	ghostObj *Obj
	typeAxioms []*Term
	entryState *State
	retProbed map[*ssa.Return]bool
	retProbes int
	pureDepth int
	sink      *querySink
	pol       int // polarity of the clause being evaluated: +1 goal, -1 hypothesis, 0 unknown
	paramVals []Value
	addrOf    map[string]*addrInfo
	rangeApps   []*rangeApp
	rangeAxioms []rangeAxiom
	curLoop     *loopInfo
	selRoots    []map[string]bool
	callArgs    []Value // arguments of the call whose call-site assertion is being evaluated
	fvByName    map[string]Value // captured variables of the closure under proof (pointers to the enclosing cells)
	strLenAx    map[string]bool // string-array elements whose length axiom was already recorded
	lazySMT     bool  // obligations emitted now are members of a batch: their own queries are built on demand
	uses        []int // when non-nil: only these loop invariants are kept as hypotheses of the obligation being built
}

func posOf(in ssa.Instruction) token.Pos {
	if in == nil {
		return token.NoPos
	}
	return in.Pos()
}

func (e *Exec) withPol(p int, f func()) {
	old := e.pol
	e.pol = p
	defer func() { e.pol = old }()
	f()
}

func (e *Exec) note(a string) { e.assumptions[a] = true }

// ---------- objects and fresh values

func (e *Exec) newObj(name string, t types.Type, isArr bool, birth int) *Obj {
	e.nobj++
	return &Obj{ID: e.nobj, Name: name, Typ: t, IsArr: isArr, Birth: birth}
}

func (e *Exec) namedObj(name string, t types.Type, isArr bool) *Obj {
	if o, ok := e.named[name]; ok {
		return o
	}
	o := e.newObj(name, t, isArr, 0)
	e.named[name] = o
	return o
}

func (e *Exec) heapGet(s *State, o *Obj) Value {
	if v, ok := s.heap.m[o]; ok {
		return v
	}
	if s.tainted != nil && s.tainted[o] {
		// modified by unknown code before it was ever read: not its entry value
		var v Value
		if o.IsArr {
			v = e.freshArr(o.Typ, "tv."+o.Name)
		} else {
			v = e.freshValS(s, o.Typ, "tv."+o.Name)
		}
		s.heap.m[o] = v
		return v
	}
	if v, ok := e.lazyInit[o]; ok {
		return v
	}
	var v Value
	if o.IsArr {
		v = e.freshArr(o.Typ, o.Name)
	} else {
		v = e.freshVal(o.Typ, o.Name)
	}
	if o.Global != nil {
		// a package-level array of constants that nothing but init assigns: its literal contents
		if at, ok := o.Typ.Underlying().(*types.Array); ok && isScalar(at.Elem()) && e.w.globalStable(o.Global) {
			if vals, ok := e.w.constArrayInit(o.Global); ok {
				arr := e.c.ZeroOf(SArr(scalarSort(at.Elem())))
				var keys []int64
				for k := range vals {
					keys = append(keys, k)
				}
				sort.Slice(keys, func(i, j int) bool { return keys[i] < keys[j] })
				for _, k := range keys {
					if cv, ok := e.constVal(vals[k]).(*Term); ok && !(cv.Const && cv.C == 0 && cv.Sort.K == KBV) {
						arr = e.c.Store(arr, BVConst(uint64(k), 64), cv)
					}
				}
				e.note("package-level constant table " + o.Global.Name() + " has the contents of its initialiser (no function assigns it)")
				v = arr
			}
		}
		// a package-level scalar that nothing but init assigns has the value of its initialiser, when that is a
		// constant expression over constants and other such globals (`var max = 9`, `var total = max + 20`)
		if isScalar(o.Typ) && !isFloat(o.Typ) && !token.IsExported(o.Global.Name()) && e.w.globalStable(o.Global) {
			if t := e.scalarInit(o.Global, 0); t != nil {
				e.note("package-level variable " + o.Global.Name() + " has the value of its initialiser (no function assigns it)")
				v = t
			}
		}
		// package-level sentinel errors and function variables with initialisers are non-nil
		switch x := v.(type) {
		case *IfaceV:
			if e.w.globalInitNonNil(o.Global) {
				e.note("package-level error variables initialised with errors.New / fmt.Errorf (and exported library sentinels) are non-nil")
				v = &IfaceV{Nil: False, ID: x.ID}
			}
		case *FuncV:
			if x.Fn == nil && e.w.globalStable(o.Global) && e.w.globalHasInit(o.Global) {
				e.note("package-level function variables that have an initialiser are non-nil")
				v = &FuncV{Nil: False, Name: o.Global.Name()}
			}
		}
	}
	e.lazyInit[o] = v
	return v
}

func (e *Exec) freshArr(elem types.Type, hint string) Value {
	if es := elemSort(elem); es != nil {
		return e.c.Fresh(hint, SArr(es))
	}
	if isString(elem) {
		return &SoAV{Str: true, F: []Value{e.c.Fresh(hint+".strs", SArr(SArr(SBV(8)))), e.c.Fresh(hint+".offs", SArr(SBV(64))), e.c.Fresh(hint+".lens", SArr(SBV(64)))}}
	}
	switch u := elem.Underlying().(type) {
	case *types.Struct:
		so := &SoAV{}
		for i := 0; i < u.NumFields(); i++ {
			so.F = append(so.F, e.freshArr(u.Field(i).Type(), hint+"."+u.Field(i).Name()))
		}
		return so
	}
	return e.newOpaqueArr(elem, hint, false)
}

func (e *Exec) zeroArr(elem types.Type) Value {
	if es := elemSort(elem); es != nil {
		return e.c.ZeroOf(SArr(es))
	}
	if isString(elem) {
		return &SoAV{Str: true, F: []Value{e.c.ZeroOf(SArr(SArr(SBV(8)))), e.c.ZeroOf(SArr(SBV(64))), e.c.ZeroOf(SArr(SBV(64)))}}
	}
	switch u := elem.Underlying().(type) {
	case *types.Struct:
		so := &SoAV{}
		for i := 0; i < u.NumFields(); i++ {
			so.F = append(so.F, e.zeroArr(u.Field(i).Type()))
		}
		return so
	}
	return e.newOpaqueArr(elem, "zero", true)
}

const maxCap = uint64(1) << 48

func (e *Exec) freshVal(t types.Type, hint string) Value {
	return e.freshValS(nil, t, hint)
}

// freshValS creates an unconstrained value of type t; type invariants (slice len/cap ranges)
// are assumed into s when s != nil, else recorded as global axioms.
func (e *Exec) freshValS(s *State, t types.Type, hint string) Value {
	switch u := t.Underlying().(type) {
	case *types.Basic:
		if isString(t) {
			l := e.c.Fresh(hint+".len", SBV(64))
			e.axiom(s, e.c.ULe(l, BVConst(maxCap, 64)))
			return &StringV{Arr: e.c.Fresh(hint+".str", SArr(SBV(8))), Off: BVConst(0, 64), Len: l}
		}
		if isScalar(t) {
			return e.c.Fresh(hint, scalarSort(t))
		}
		return &OpaqueV{Typ: t, ID: e.c.Fresh(hint+".id", SBV(64)), Nil: False}
	case *types.Struct:
		sv := &StructV{}
		for i := 0; i < u.NumFields(); i++ {
			sv.F = append(sv.F, e.freshValS(s, u.Field(i).Type(), hint+"."+u.Field(i).Name()))
		}
		return sv
	case *types.Array:
		return e.freshArr(u.Elem(), hint)
	case *types.Slice:
		base := e.namedObjFresh(hint+".arr", u.Elem(), true)
		l := e.c.Fresh(hint+".len", SBV(64))
		cp := e.c.Fresh(hint+".cap", SBV(64))
		nl := e.c.Fresh(hint+".nil", SBool)
		e.axiom(s, e.c.ULe(l, cp))
		e.axiom(s, e.c.ULe(cp, BVConst(maxCap, 64)))
		e.axiom(s, e.c.Implies(nl, e.c.Eq(cp, BVConst(0, 64))))
		return &SliceV{Base: &Ref{Obj: base}, Off: BVConst(0, 64), Len: l, Cap: cp, Nil: nl, Elem: u.Elem()}
	case *types.Pointer:
		o := e.namedObjFresh(hint+".*", u.Elem(), false)
		return &PtrV{Ref: &Ref{Obj: o}, Nil: e.c.Fresh(hint+".nil", SBool)}
	case *types.Interface:
		return &IfaceV{Nil: e.c.Fresh(hint+".nil", SBool), ID: e.c.Fresh(hint+".id", SBV(64))}
	case *types.Signature:
		return &FuncV{Nil: e.c.Fresh(hint+".nil", SBool), Name: hint}
	case *types.Tuple:
		var tv TupleV
		for i := 0; i < u.Len(); i++ {
			tv = append(tv, e.freshValS(s, u.At(i).Type(), fmt.Sprintf("%s.%d", hint, i)))
		}
		return tv
	}
	return &OpaqueV{Typ: t, ID: e.c.Fresh(hint+".id", SBV(64)), Nil: e.c.Fresh(hint+".nil", SBool)}
}

func (e *Exec) axiom(s *State, t *Term) {
	if s != nil {
		s.axiom(t)
	} else {
		e.typeAxioms = append(e.typeAxioms, t)
	}
}

// namedObjFresh returns an object with a unique structural name.
func (e *Exec) namedObjFresh(name string, t types.Type, isArr bool) *Obj {
	base := name
	for i := 1; ; i++ {
		if _, ok := e.named[name]; !ok {
			break
		}
		name = fmt.Sprintf("%s~%d", base, i)
	}
	return e.namedObj(name, t, isArr)
}

func (e *Exec) zeroVal(t types.Type) Value {
	switch u := t.Underlying().(type) {
	case *types.Basic:
		if isString(t) {
			empty := ""
			return &StringV{Arr: e.c.ZeroOf(SArr(SBV(8))), Off: BVConst(0, 64), Len: BVConst(0, 64), Lit: &empty}
		}
		if isScalar(t) {
			return e.c.ZeroOf(scalarSort(t))
		}
		return &OpaqueV{Typ: t, ID: BVConst(0, 64), Nil: True}
	case *types.Struct:
		sv := &StructV{}
		for i := 0; i < u.NumFields(); i++ {
			sv.F = append(sv.F, e.zeroVal(u.Field(i).Type()))
		}
		return sv
	case *types.Array:
		return e.zeroArr(u.Elem())
	case *types.Slice:
		return &SliceV{Base: nil, Off: BVConst(0, 64), Len: BVConst(0, 64), Cap: BVConst(0, 64), Nil: True, Elem: u.Elem()}
	case *types.Pointer:
		return &PtrV{Nil: True}
	case *types.Interface:
		return &IfaceV{Nil: True, ID: BVConst(0, 64)}
	case *types.Signature:
		return &FuncV{Nil: True}
	case *types.Tuple:
		var tv TupleV
		for i := 0; i < u.Len(); i++ {
			tv = append(tv, e.zeroVal(u.At(i).Type()))
		}
		return tv
	}
	return &OpaqueV{Typ: t, ID: BVConst(0, 64), Nil: True}
}

// ---------- heap access

func (e *Exec) load(s *State, r *Ref) Value {
	if r == nil {
		panic(unsupported("load through unknown pointer"))
	}
	return e.navigate(e.heapGet(s, r.Obj), r.Path, nil)
}

func (e *Exec) store(s *State, r *Ref, v Value) {
	if r == nil {
		panic(unsupported("store through unknown pointer"))
	}
	old := e.heapGet(s, r.Obj)
	s.heap.m[r.Obj] = e.update(old, r.Path, v)
	if r.Obj.Pointee {
		e.pteeEpoch++
	}
	e.noteWriteField(s, r)
}

// noteWriteField records a write through reference r for the enclosing loops: at the granularity of the
// first-level field when r addresses a field of a struct object, else the whole object.
func (e *Exec) noteWriteField(s *State, r *Ref) {
	if len(s.loops) == 0 {
		return
	}
	if len(r.Path) > 0 && r.Path[0].Index == nil && !r.Obj.IsArr {
		if _, ok := r.Obj.Typ.Underlying().(*types.Struct); ok {
			key := fmt.Sprintf("%s#f%d", r.Obj.Name, r.Path[0].Field)
			for _, li := range s.loops {
				if r.Obj.Birth >= li.entryStep {
					continue
				}
				hs := e.loopHavoc[li.key]
				if hs == nil {
					hs = map[string]bool{}
					e.loopHavoc[li.key] = hs
				}
				if !hs[r.Obj.Name] && !hs[key] {
					hs[key] = true
					e.restart = true
				}
			}
			return
		}
	}
	// an array of structs is kept as one array per field: a write of one field of an element touches that column only
	if r.Obj.IsArr && len(r.Path) >= 2 && r.Path[0].Index != nil && r.Path[1].Index == nil {
		if so, ok := e.heapGet(s, r.Obj).(*SoAV); ok && !so.Str && r.Path[1].Field < len(so.F) {
			key := fmt.Sprintf("%s#a%d", r.Obj.Name, r.Path[1].Field)
			for _, li := range s.loops {
				if r.Obj.Birth >= li.entryStep {
					continue
				}
				hs := e.loopHavoc[li.key]
				if hs == nil {
					hs = map[string]bool{}
					e.loopHavoc[li.key] = hs
				}
				if !hs[r.Obj.Name] && !hs[key] {
					hs[key] = true
					e.restart = true
				}
			}
			return
		}
	}
	e.noteWrite(s, r.Obj)
}

func (e *Exec) noteWrite(s *State, o *Obj) {
	for _, li := range s.loops {
		if o.Birth >= li.entryStep {
			continue
		}
		hs := e.loopHavoc[li.key]
		if hs == nil || !hs[o.Name] {
			if hs == nil {
				hs = map[string]bool{}
				e.loopHavoc[li.key] = hs
			}
			hs[o.Name] = true
			e.restart = true
		}
	}
}

// ---------- obligations

func (e *Exec) oblName(kind string) string {
	return e.fnKey() + "#" + kind
}

func (e *Exec) fnKey() string { return fnKey(e.fn) }

func fnKey(fn *ssa.Function) string {
	if fn.Pkg != nil {
		return fn.Pkg.Pkg.Name() + "." + fn.RelString(fn.Pkg.Pkg)
	}
	return fn.String()
}

// counter gives a stable ordinal for an instruction: its rank among the instructions of its function.
func (e *Exec) counter(kindPrefix string, key ssa.Instruction) int {
	if key == nil {
		return 0
	}
	if key.Parent() != nil {
		e.w.loopsOf(key.Parent())
	}
	return e.w.instrRank[key]
}

// emit records an obligation "pc => goal".
func (e *Exec) emit(s *State, kind string, goal *Term, pos token.Pos) {
	if s.pure > 0 || e.restart {
		return // (a run whose loop havoc sets were incomplete is only scouting: its obligations are discarded)
	}
	ob := &Obligation{Name: e.oblName(kind), Kind: kind, Fn: e.fnKey(), Goal: goal.S}
	if pos.IsValid() {
		p := e.w.fset.Position(pos)
		ob.Pos = fmt.Sprintf("%s:%d", p.Filename, p.Line)
	}
	ob.Trace = append([]string(nil), s.trace...)
	if goal.Const && goal.B {
		ob.Trivial = true
		ob.Status = "unsat"
		ob.Solver = "simplifier"
		e.obls = append(e.obls, ob)
		return
	}
	ob.goalTerm = goal
	if e.lazySMT {
		snap := *s
		snap.pc = append([]*Term(nil), s.pc...)
		snap.pcTag = append([]string(nil), s.pcTag...)
		snap.axioms = append([]*Term(nil), s.axioms...)
		snap.cands = append([]cand(nil), s.cands...)
		snap.quants = append([]*Quant(nil), s.quants...)
		uses := e.uses
		ob.lazy = func() {
			save := e.uses
			e.uses = uses
			ob.SMT, ob.SMTLight = e.buildQuery(&snap, []*Term{e.c.Not(goal)})
			e.uses = save
			ob.lazy = nil
		}
	} else {
		ob.SMT, ob.SMTLight = e.buildQuery(s, []*Term{e.c.Not(goal)})
	}
	e.obls = append(e.obls, ob)
}

// batch gives the obligations emitted since index |from| one shared query for their conjunction: when it
// is unsat every member is discharged at once; otherwise the members are decided individually.
func (e *Exec) batch(s *State, from int) {
	var goals []*Term
	var members []*Obligation
	for _, o := range e.obls[from:] {
		if o.Probe || o.Trivial || o.goalTerm == nil {
			continue
		}
		goals = append(goals, o.goalTerm)
		members = append(members, o)
	}
	if len(members) < 3 {
		for _, o := range members {
			if o.lazy != nil {
				o.lazy()
			}
		}
		return
	}
	q, _ := e.buildQuery(s, []*Term{e.c.Not(e.c.And(goals...))})
	for _, o := range members {
		o.BatchSMT = q
	}
}

// emitProbe records a satisfiability probe (expected sat) for vacuity detection.
func (e *Exec) emitProbe(s *State, kind string) {
	if e.restart {
		return
	}
	ob := &Obligation{Name: e.oblName(kind), Kind: kind, Fn: e.fnKey(), Probe: true}
	ob.SMT, _ = e.buildQuery(s, nil)
	ob.Trace = append([]string(nil), s.trace...)
	e.obls = append(e.obls, ob)
}

// ---------- running

type pathEnd struct{}

func (e *Exec) fail(s *State, msg string) {
	e.errs = append(e.errs, msg)
	s.dead = true
}

func (e *Exec) runAll(init *State) {
	e.work = []*State{init}
	for len(e.work) > 0 {
		s := e.work[len(e.work)-1]
		e.work = e.work[:len(e.work)-1]
		e.paths++
		if e.paths > e.maxPaths {
			e.errs = append(e.errs, fmt.Sprintf("path cap %d exceeded", e.maxPaths))
			return
		}
		e.runPath(s)
		// when a loop's havoc set turned out to be incomplete the run continues (collecting every missing
		// object in one pass); its obligations are discarded and the function is explored again
	}
}

func (e *Exec) runPath(s *State) {
	defer func() {
		if r := recover(); r != nil {
			if u, ok := r.(unsupportedErr); ok {
				fr := ""
				if len(s.frames) > 0 {
					f := s.top()
					fr = f.fn.String()
					if f.block != nil && f.ip < len(f.block.Instrs) {
						fr += " @ " + e.w.fset.Position(f.block.Instrs[f.ip].Pos()).String() + " " + f.block.Instrs[f.ip].String()
					}
				}
				e.errs = append(e.errs, u.Error()+" in "+fr)
				return
			}
			panic(r)
		}
	}()
	for !s.dead && len(s.frames) > 0 {
		f := s.top()
		if f.ip >= len(f.block.Instrs) {
			panic(unsupported("fell off block"))
		}
		instr := f.block.Instrs[f.ip]
		f.ip++
		s.step++
		e.execInstr(s, f, instr)
	}
}

func (e *Exec) get(f *Frame, v ssa.Value) Value {
	switch x := v.(type) {
	case *ssa.Const:
		return e.constVal(x)
	case *ssa.Function:
		return &FuncV{Fn: x, Nil: False}
	case *ssa.Global:
		return e.globalPtr(x)
	case *ssa.Builtin:
		return &FuncV{Name: "builtin:" + x.Name(), Nil: False}
	}
	if val, ok := f.env[v]; ok {
		return val
	}
	panic(unsupported(fmt.Sprintf("unbound ssa value %s (%T) in %s", v.Name(), v, f.fn)))
}

func (e *Exec) globalPtr(g *ssa.Global) Value {
	name := "global:" + g.String()
	o := e.namedObj(name, g.Type().(*types.Pointer).Elem(), false)
	o.Global = g
	return &PtrV{Ref: &Ref{Obj: o}, Nil: False}
}

// scalarInit evaluates the initialiser of the scalar global g when it is built from constants, +, -, * and loads of
// other stable scalar globals; nil otherwise.
func (e *Exec) scalarInit(g *ssa.Global, depth int) *Term {
	if depth > 4 {
		return nil
	}
	var ev func(v ssa.Value) *Term
	ev = func(v ssa.Value) *Term {
		switch x := v.(type) {
		case *ssa.Const:
			t, _ := e.constVal(x).(*Term)
			return t
		case *ssa.UnOp:
			if g2, ok := x.X.(*ssa.Global); ok && x.Op == token.MUL && e.w.globalStable(g2) && isScalar(g2.Type().(*types.Pointer).Elem()) {
				return e.scalarInit(g2, depth+1)
			}
		case *ssa.BinOp:
			a, b := ev(x.X), ev(x.Y)
			if a == nil || b == nil || a.Sort.K != KBV || b.Sort.K != KBV || a.Sort.W != b.Sort.W {
				return nil
			}
			switch x.Op {
			case token.ADD:
				return e.c.Add(a, b)
			case token.SUB:
				return e.c.Sub(a, b)
			case token.MUL:
				return e.c.Mul(a, b)
			}
		}
		return nil
	}
	val := e.w.scalarInitStore(g)
	if val == nil {
		return nil
	}
	t := ev(val)
	if t == nil || !t.Const {
		return nil
	}
	return t
}

func (e *Exec) constVal(k *ssa.Const) Value {
	t := k.Type()
	if k.Value == nil {
		return e.zeroVal(t)
	}
	switch u := t.Underlying().(type) {
	case *types.Basic:
		switch {
		case u.Info()&types.IsBoolean != 0:
			return BoolConst(constant.BoolVal(k.Value))
		case u.Info()&types.IsInteger != 0:
			w := intWidth(u)
			if i, ok := constant.Int64Val(constant.ToInt(k.Value)); ok {
				return BVConst(uint64(i), w)
			}
			ui, _ := constant.Uint64Val(constant.ToInt(k.Value))
			return BVConst(ui, w)
		case u.Info()&types.IsFloat != 0:
			f, _ := constant.Float64Val(k.Value)
			return BVConst(floatBits(f, intWidth(u)), intWidth(u))
		case u.Info()&types.IsString != 0:
			return e.strConst(constant.StringVal(k.Value))
		}
	}
	return e.zeroVal(t)
}

func (e *Exec) strConst(str string) *StringV {
	arr := e.c.ZeroOf(SArr(SBV(8)))
	if len(str) <= 256 {
		for i := 0; i < len(str); i++ {
			arr = e.c.Store(arr, BVConst(uint64(i), 64), BVConst(uint64(str[i]), 8))
		}
	} else {
		arr = e.c.Fresh("biglit", SArr(SBV(8)))
	}
	return &StringV{Arr: arr, Off: BVConst(0, 64), Len: BVConst(uint64(len(str)), 64), Lit: &str}
}

func (e *Exec) execInstr(s *State, f *Frame, instr ssa.Instruction) {
	switch in := instr.(type) {
	case *ssa.Alloc:
		name := fmt.Sprintf("%s#%d:%s", f.fn.Name(), f.id, in.Name())
		o := e.newObj(name, in.Type().(*types.Pointer).Elem(), false, s.step)
		s.heap.m[o] = e.zeroVal(o.Typ)
		f.env[in] = &PtrV{Ref: &Ref{Obj: o}, Nil: False}
	case *ssa.Store:
		addr := e.get(f, in.Addr).(*PtrV)
		e.nilCheck(s, addr, in.Pos(), in)
		val := e.get(f, in.Val)
		e.store(s, addr.Ref, val)
	case *ssa.UnOp:
		f.env[in] = e.unop(s, f, in)
	case *ssa.BinOp:
		x, y := e.get(f, in.X), e.get(f, in.Y)
		v := e.binop(s, in.Op, x, y, in.X.Type(), in.Y.Type(), in, in.Pos())
		f.env[in] = v
		if t, ok := v.(*Term); ok && (in.Op == token.ADD || in.Op == token.SUB) {
			// small offsets of index-like terms are index-like
			xt, xok := x.(*Term)
			yt, yok := y.(*Term)
			if xok && yok && ((yt.Const && yt.C <= 64 && s.isCand(xt)) || (xt.Const && xt.C <= 64 && s.isCand(yt))) {
				s.addCand(t, isSigned(in.Type()))
			}
		}
	case *ssa.FieldAddr:
		p := e.get(f, in.X).(*PtrV)
		e.nilCheck(s, p, in.Pos(), in)
		if p.Ref == nil {
			panic(unsupported("fieldaddr of unknown pointer"))
		}
		f.env[in] = &PtrV{Ref: p.Ref.extend(PElem{Field: in.Field}), Nil: False}
	case *ssa.Field:
		sv, ok := e.get(f, in.X).(*StructV)
		if !ok {
			panic(unsupported("field of non-struct value"))
		}
		f.env[in] = sv.F[in.Field]
	case *ssa.IndexAddr:
		f.env[in] = e.indexAddr(s, f, in)
	case *ssa.Index:
		f.env[in] = e.index(s, f, in)
	case *ssa.Slice:
		f.env[in] = e.sliceOp(s, f, in)
	case *ssa.MakeSlice:
		t := in.Type().Underlying().(*types.Slice)
		l := e.toBV64(e.get(f, in.Len).(*Term), in.Len.Type())
		cp := e.toBV64(e.get(f, in.Cap).(*Term), in.Cap.Type())
		e.check(s, "bounds", e.c.And(e.c.SLe(BVConst(0, 64), l), e.c.SLe(l, cp), e.c.ULe(cp, BVConst(maxCap, 64))), in.Pos(), in)
		o := e.newObj(fmt.Sprintf("%s#%d:%s", f.fn.Name(), f.id, in.Name()), t.Elem(), true, s.step)
		s.heap.m[o] = e.zeroArr(t.Elem())
		f.env[in] = &SliceV{Base: &Ref{Obj: o}, Off: BVConst(0, 64), Len: l, Cap: cp, Nil: False, Elem: t.Elem()}
	case *ssa.Convert:
		xv := e.get(f, in.X)
		f.env[in] = e.convert(s, xv, in.X.Type(), in.Type(), in)
		if t, ok := f.env[in].(*Term); ok {
			if xt, ok := xv.(*Term); ok && s.isCand(xt) && isScalar(in.Type()) && !isFloat(in.Type()) {
				s.addCand(t, isSigned(in.Type()))
			}
		}
	case *ssa.ChangeType:
		f.env[in] = e.get(f, in.X)
	case *ssa.MultiConvert:
		f.env[in] = e.convert(s, e.get(f, in.X), in.X.Type(), in.Type(), in)
	case *ssa.MakeInterface:
		v := e.get(f, in.X)
		iv := &IfaceV{Nil: False, Typ: in.X.Type(), Val: v}
		iv.ID = e.ifaceID(v, in.X.Type())
		f.env[in] = iv
	case *ssa.ChangeInterface:
		f.env[in] = e.get(f, in.X)
	case *ssa.TypeAssert:
		f.env[in] = e.typeAssert(s, f, in)
	case *ssa.Extract:
		tv := e.get(f, in.Tuple).(TupleV)
		f.env[in] = tv[in.Index]
	case *ssa.Phi:
		idx := -1
		for i, p := range in.Block().Preds {
			if p == f.prev {
				idx = i
			}
		}
		if idx < 0 {
			panic(unsupported("phi without matching pred"))
		}
		f.env[in] = e.get(f, in.Edges[idx])
	case *ssa.Call:
		e.execCall(s, f, in, &in.Call, in.Pos())
	case *ssa.Defer:
		var args []Value
		for _, a := range in.Call.Args {
			args = append(args, e.get(f, a))
		}
		var fnv Value
		if in.Call.IsInvoke() {
			fnv = &boundInvoke{recv: e.get(f, in.Call.Value), method: in.Call.Method}
		} else {
			fnv = e.get(f, in.Call.Value)
		}
		f.defers = append(f.defers, deferRec{fnv: fnv, args: args, instr: in})
	case *ssa.RunDefers:
		e.runDefers(s, f)
	case *ssa.Go:
		e.note("goroutine launch ignored (arguments havoc'd): " + f.fn.String())
		for _, a := range in.Call.Args {
			e.havocReach(s, e.get(f, a), map[*Obj]bool{})
		}
		e.havocReach(s, e.get(f, in.Call.Value), map[*Obj]bool{})
	case *ssa.MakeClosure:
		fv := &FuncV{Fn: in.Fn.(*ssa.Function), Nil: False}
		for _, b := range in.Bindings {
			fv.Free = append(fv.Free, e.get(f, b))
		}
		f.env[in] = fv
	case *ssa.MakeMap:
		f.env[in] = &OpaqueV{Typ: in.Type(), ID: e.c.Fresh("map", SBV(64)), Nil: False}
	case *ssa.MakeChan:
		f.env[in] = &OpaqueV{Typ: in.Type(), ID: e.c.Fresh("chan", SBV(64)), Nil: False}
	case *ssa.MapUpdate:
		// maps are opaque: updates are dropped (lookups return unconstrained values)
		s.mapEpoch = e.nextEpoch()
	case *ssa.Lookup:
		f.env[in] = e.lookup(s, f, in)
	case *ssa.Range:
		x := e.get(f, in.X)
		it := &rangeIter{x: x, pos: BVConst(0, 64), isStr: isString(in.X.Type())}
		if it.isStr {
			// the iterator position of a string range is a (hidden) cell, so that loops over it can be cut
			it.obj = e.newObj(fmt.Sprintf("%s#%d:%s.iterpos", f.fn.Name(), f.id, in.Name()), types.Typ[types.Int], false, s.step)
			s.heap.m[it.obj] = BVConst(0, 64)
		}
		f.env[in] = it
	case *ssa.Next:
		f.env[in] = e.next(s, f, in)
	case *ssa.Select:
		// sequential over-approximation: any case may be the one that proceeds; received values are arbitrary
		e.note("select: any ready case may be chosen, received values unconstrained: " + f.fn.String())
		n := len(in.States)
		idx := e.c.Fresh("select.idx", SBV(64))
		lo := uint64(0)
		if !in.Blocking {
			lo = ^uint64(0) // -1: the default case
		}
		s.assume(e.c.And(e.c.SLe(BVConst(lo, 64), idx), e.c.SLt(idx, BVConst(uint64(n), 64))))
		tv := TupleV{idx, e.c.Fresh("select.ok", SBool)}
		for _, st := range in.States {
			if st.Dir == types.RecvOnly {
				tv = append(tv, e.freshValS(s, st.Chan.Type().Underlying().(*types.Chan).Elem(), "select.recv"))
			}
		}
		f.env[in] = tv
	case *ssa.Send:
		e.note("channel send ignored: " + f.fn.String())
	case *ssa.DebugRef:
	case *ssa.SliceToArrayPointer:
		// (*[N]T)(slice), in practice immediately dereferenced (the conversion [N]T(slice) copies). Modelled as a
		// pointer to a fresh array holding a copy of the first N elements: exact for the copy idiom; writes through
		// the pointer would not reach the slice (noted as an assumption).
		sv, ok := e.get(f, in.X).(*SliceV)
		at, ok2 := in.Type().(*types.Pointer).Elem().Underlying().(*types.Array)
		es := (*Sort)(nil)
		if ok2 {
			es = elemSort(at.Elem())
		}
		if !ok || !ok2 || es == nil || at.Len() > 64 {
			panic(unsupported("slice to array pointer"))
		}
		n := at.Len()
		e.check(s, "bounds", e.c.ULe(BVConst(uint64(n), 64), sv.Len), in.Pos(), in)
		arr := e.c.ZeroOf(SArr(es))
		if sv.Base != nil {
			if src, ok := e.load(s, sv.Base).(*Term); ok {
				for i := int64(0); i < n; i++ {
					arr = e.c.Store(arr, BVConst(uint64(i), 64), e.c.Select(src, e.c.Add(sv.Off, BVConst(uint64(i), 64))))
				}
			} else {
				panic(unsupported("slice to array pointer over a non-scalar backing"))
			}
		}
		e.note("slice-to-array conversion modelled as a copy (the array pointer is assumed to be dereferenced at once)")
		o := e.newObj(fmt.Sprintf("%s#%d:%s.arrcopy", f.fn.Name(), f.id, in.Name()), at, false, s.step)
		s.heap.m[o] = arr
		f.env[in] = &PtrV{Ref: &Ref{Obj: o}, Nil: False}
	case *ssa.Jump:
		e.gotoBlock(s, f, f.block.Succs[0], in.Pos())
	case *ssa.If:
		cond := e.get(f, in.Cond).(*Term)
		e.branch(s, f, cond, f.block.Succs[0], f.block.Succs[1], in.Pos())
	case *ssa.Return:
		e.execReturn(s, f, in)
	case *ssa.Panic:
		if s.pure == 0 {
			if e.panicChecked(f) {
				e.check(s, "unreachable", False, in.Pos(), in)
			}
		}
		s.dead = true
	default:
		panic(unsupported(fmt.Sprintf("instruction %T", instr)))
	}
}

type boundInvoke struct {
	recv   Value
	method *types.Func
}

type rangeIter struct {
	x     Value
	pos   *Term
	isStr bool
	obj   *Obj // string iteration: cell holding the byte position of the next rune
}

func floatBits(f float64, w int) uint64 {
	if w == 32 {
		return uint64(f32bits(float32(f)))
	}
	return f64bits(f)
}

// panicChecked reports whether implicit/explicit panics in frame f are proof obligations.
func (e *Exec) panicChecked(f *Frame) bool {
	if e.con == nil {
		return false
	}
	if !e.con.NoPanic {
		return false
	}
	return true
}

// check emits a safety obligation (bounds / nil / div / unreachable) and assumes it afterwards.
func (e *Exec) check(s *State, kind string, cond *Term, pos token.Pos, key ssa.Instruction) {
	if s.pure > 0 {
		return
	}
	f := s.top()
	if e.panicChecked(f) && (len(e.con.PanicKinds) == 0 || e.con.PanicKinds[kind]) && !(cond.Const && cond.B) {
		n := e.counter(kind, key)
		name := fmt.Sprintf("%s.%d", kind, n)
		if !f.isTop {
			name = fmt.Sprintf("%s.%s.%d", kind, f.fn.Name(), n)
		}
		e.emit(s, name, cond, pos)
	}
	if cond.Const && !cond.B {
		s.dead = true
		return
	}
	s.assume(cond)
}

func (e *Exec) nilCheck(s *State, p *PtrV, pos token.Pos, key ssa.Instruction) {
	if p.Nil.Const && !p.Nil.B {
		return
	}
	e.check(s, "nil", e.c.Not(p.Nil), pos, key)
}

func (e *Exec) toBV64(t *Term, ty types.Type) *Term {
	if t.Sort.W == 64 {
		return t
	}
	if isSigned(ty) {
		return e.c.SExt(t, 64)
	}
	return e.c.ZExt(t, 64)
}

// ---------- control flow

func (e *Exec) branch(s *State, f *Frame, cond *Term, bt, bf *ssa.BasicBlock, pos token.Pos) {
	if !cond.Const {
		switch s.truth(cond, 0) {
		case 1:
			e.gotoBlock(s, f, bt, pos)
			return
		case -1:
			e.gotoBlock(s, f, bf, pos)
			return
		}
	}
	if cond.Const {
		if cond.B {
			e.gotoBlock(s, f, bt, pos)
		} else {
			e.gotoBlock(s, f, bf, pos)
		}
		return
	}
	other := s.clone()
	other.assume(e.c.Not(cond))
	other.trace = append(other.trace, fmt.Sprintf("%s: false -> block %d", e.posStr(pos), bf.Index))
	of := other.top()
	e.gotoBlock(other, of, bf, pos)
	if !other.dead && len(other.frames) > 0 {
		e.work = append(e.work, other)
	}
	s.assume(cond)
	s.trace = append(s.trace, fmt.Sprintf("%s: true -> block %d", e.posStr(pos), bt.Index))
	e.gotoBlock(s, f, bt, pos)
}

func (e *Exec) posStr(pos token.Pos) string {
	if !pos.IsValid() {
		return "?"
	}
	p := e.w.fset.Position(pos)
	fn := p.Filename
	if i := strings.LastIndex(fn, "/"); i >= 0 {
		fn = fn[i+1:]
	}
	return fmt.Sprintf("%s:%d", fn, p.Line)
}

func (e *Exec) gotoBlock(s *State, f *Frame, target *ssa.BasicBlock, pos token.Pos) {
	from := f.block
	loops := e.w.loopsOf(f.fn)
	// leaving loops
	for len(s.loops) > 0 {
		li := s.loops[len(s.loops)-1]
		if li.frameID == f.id && !li.li.blocks[target] {
			s.loops = s.loops[:len(s.loops)-1]
			continue
		}
		break
	}
	if li, ok := loops.byHeader[target]; ok && f.unroll > 0 {
		// inlined callee unrolled on request of the lemma under proof: no cut point; the bound is an obligation
		if f.unrollCount == nil {
			f.unrollCount = map[*loopInfo]int{}
		}
		if li.blocks[from] {
			f.unrollCount[li]++
			if f.unrollCount[li] > f.unroll {
				e.emit(s, fmt.Sprintf("unwind.%s.loop%d", f.fn.Name(), li.ordinal), False, pos)
				s.dead = true
				return
			}
		}
	} else if ok {
		if li.blocks[from] && e.inLoop(s, f, li) {
			// back edge
			e.loopBack(s, f, li)
			s.dead = true
			return
		}
		e.loopEnter(s, f, li, from)
		if s.dead {
			return
		}
	}
	f.prev = from
	f.block = target
	f.ip = 0
}

func (e *Exec) inLoop(s *State, f *Frame, li *loopInfo) bool {
	for _, l := range s.loops {
		if l.li == li && l.frameID == f.id {
			return true
		}
	}
	return false
}

func (e *Exec) loopContract(f *Frame, li *loopInfo) *LoopContract {
	con := e.w.contractFor(f.fn)
	if con == nil {
		return nil
	}
	return con.Loops[li.ordinal]
}

func (e *Exec) loopEnter(s *State, f *Frame, li *loopInfo, from *ssa.BasicBlock) {
	e.curLoop = li
	defer func() { e.curLoop = nil }()
	lc := e.loopContract(f, li)
	if s.pure > 0 {
		panic(unsupported("loop inside pure evaluation of " + f.fn.String()))
	}
	if f.loopEntry == nil {
		f.loopEntry = map[*loopInfo]*State{}
	}
	f.loopEntry[li] = e.snapshot(s)
	key := fmt.Sprintf("%s/loop%d", fnKey(f.fn), li.ordinal)
	prefix := fmt.Sprintf("loop%d", li.ordinal)
	if !f.isTop {
		prefix = f.fn.Name() + "." + prefix
	}
	if lc != nil {
		for i, inv := range lc.Invariants {
			var g *Term
			e.withPol(1, func() { g = e.evalClause(s, f, inv, nil) })
			e.emit(s, fmt.Sprintf("%s.inv.%d.entry", prefix, i+1), g, inv.Pos)
		}
	}
	// havoc: static cells + dynamically discovered objects
	s.mapEpoch = e.nextEpoch()
	hs := e.loopHavoc[key]
	if hs == nil {
		hs = map[string]bool{}
		e.loopHavoc[key] = hs
	}
	for _, a := range li.cells {
		pv, ok := f.env[a].(*PtrV)
		if !ok {
			continue // alloc inside the loop (not yet executed)
		}
		hs[pv.Ref.Obj.Name] = true
	}
	if hs != nil {
		names := sortedKeys(hs)
		for _, n := range names {
			if i := strings.LastIndex(n, "#a"); i > 0 {
				// one column of an array of structs
				if hs[n[:i]] {
					continue
				}
				var fi int
				if _, err := fmt.Sscanf(n[i+2:], "%d", &fi); err != nil {
					continue
				}
				if o := e.findObj(s, n[:i]); o != nil {
					if so, ok := e.heapGet(s, o).(*SoAV); ok && !so.Str && fi < len(so.F) {
						nso := &SoAV{F: append([]Value(nil), so.F...)}
						nso.F[fi] = e.freshShape(so.F[fi], "lh."+n)
						s.heap.m[o] = nso
					} else {
						e.havocObjForLoop(s, o, key)
					}
				}
				continue
			}
			if i := strings.LastIndex(n, "#f"); i > 0 {
				// one field of a struct object
				if hs[n[:i]] {
					continue
				}
				var fi int
				if _, err := fmt.Sscanf(n[i+2:], "%d", &fi); err != nil {
					continue
				}
				if o := e.findObj(s, n[:i]); o != nil {
					if st, ok := o.Typ.Underlying().(*types.Struct); ok && fi < st.NumFields() {
						r := &Ref{Obj: o, Path: []PElem{{Field: fi}}}
						old := e.load(s, r)
						nv := e.freshLike(s, old, st.Field(fi).Type(), "lh."+n)
						s.heap.m[o] = e.update(e.heapGet(s, o), r.Path, nv)
					}
				}
				continue
			}
			if o := e.findObj(s, n); o != nil {
				e.havocObjForLoop(s, o, key)
			}
		}
	}
	s.loops = append(s.loops, &loopInst{li: li, key: key, entryStep: s.step, frameID: f.id})
	s.trace = append(s.trace, fmt.Sprintf("enter %s (state havoc'd to an arbitrary iteration)", key))
	if lc != nil {
		// block pointer must be at the header for expression evaluation of cells: cells are heap objects, fine.
		for i, inv := range lc.Invariants {
			var g *Term
			e.withPol(-1, func() { g = e.evalClause(s, f, inv, nil) })
			s.curTag = fmt.Sprintf("inv%d", i+1)
			s.assume(g)
			s.curTag = ""
		}
		if lc.Decreases != nil {
			v := e.evalClauseVal(s, f, lc.Decreases, nil).(*Term)
			if f.loopDec == nil {
				f.loopDec = map[*loopInfo]*Term{}
			}
			f.loopDec[li] = v
		}
		if f.isTop {
			e.emitProbe(s, prefix+".inv-sat")
		}
	}
}

func (e *Exec) findObj(s *State, name string) *Obj {
	if o, ok := e.named[name]; ok {
		return o
	}
	for o := range s.heap.m {
		if o.Name == name {
			return o
		}
	}
	return nil
}

// nextEpoch returns a map epoch never used before (on any path).
func (e *Exec) nextEpoch() int {
	e.epochs++
	return e.epochs
}

// mapLen is len(m) of an opaque map: unknown, but the same term for the same map identity until the map may have
// been mutated (any call, map update, delete/clear, or loop-head havoc starts a new epoch).
func (e *Exec) mapLen(s *State, x *OpaqueV) *Term {
	if e.mapLens == nil {
		e.mapLens = map[string]*Term{}
	}
	k := fmt.Sprintf("%d|%s", s.mapEpoch, x.ID.S)
	l, ok := e.mapLens[k]
	if !ok {
		l = e.c.Fresh("maplen", SBV(64))
		e.mapLens[k] = l
	}
	s.axiom(e.c.ULe(l, BVConst(maxCap, 64)))
	s.axiom(e.c.Implies(x.Nil, e.c.Eq(l, BVConst(0, 64))))
	return l
}

func (e *Exec) havocObjForLoop(s *State, o *Obj, key string) {
	old := e.heapGet(s, o)
	var nv Value
	if o.IsArr {
		nv = e.freshArr(o.Typ, "lh."+o.Name)
	} else {
		nv = e.freshLike(s, old, o.Typ, "lh."+o.Name)
	}
	s.heap.m[o] = nv
}

// freshLike creates a fresh value of type t keeping the identity (base object) of slices and pointers.
func (e *Exec) freshLike(s *State, old Value, t types.Type, hint string) Value {
	switch o := old.(type) {
	case *SliceV:
		if o.Base == nil {
			return e.freshValS(s, t, hint)
		}
		l := e.c.Fresh(hint+".len", SBV(64))
		cp := e.c.Fresh(hint+".cap", SBV(64))
		off := e.c.Fresh(hint+".off", SBV(64))
		s.assume(e.c.ULe(l, cp))
		s.assume(e.c.ULe(cp, BVConst(maxCap, 64)))
		s.assume(e.c.ULe(off, BVConst(maxCap, 64)))
		return &SliceV{Base: o.Base, Off: off, Len: l, Cap: cp, Nil: False, Elem: o.Elem}
	case *PtrV:
		return o
	case *StringV:
		// a string variable reassigned in the loop (typically re-sliced): same bytes, unknown window
		l := e.c.Fresh(hint+".len", SBV(64))
		off := e.c.Fresh(hint+".off", SBV(64))
		s.assume(e.c.ULe(l, BVConst(maxCap, 64)))
		s.assume(e.c.ULe(off, BVConst(maxCap, 64)))
		return &StringV{Arr: o.Arr, Off: off, Len: l}
	case *StructV:
		st := t.Underlying().(*types.Struct)
		n := &StructV{}
		for i, fv := range o.F {
			n.F = append(n.F, e.freshLike(s, fv, st.Field(i).Type(), hint+"."+st.Field(i).Name()))
		}
		return n
	case *FuncV:
		return o
	case *rangeIter:
		return o
	}
	return e.freshValS(s, t, hint)
}

func (e *Exec) loopBack(s *State, f *Frame, li *loopInfo) {
	e.curLoop = li
	defer func() { e.curLoop = nil }()
	lc := e.loopContract(f, li)
	if lc == nil {
		return
	}
	prefix := fmt.Sprintf("loop%d", li.ordinal)
	if !f.isTop {
		prefix = f.fn.Name() + "." + prefix
	}
	for i, inv := range lc.Invariants {
		var g *Term
		e.withPol(1, func() { g = e.evalClause(s, f, inv, nil) })
		e.uses = inv.Uses
		e.emit(s, fmt.Sprintf("%s.inv.%d.preserved", prefix, i+1), g, inv.Pos)
		e.uses = nil
	}
	if lc.Decreases != nil {
		nv := e.evalClauseVal(s, f, lc.Decreases, nil).(*Term)
		ov := f.loopDec[li]
		var g *Term
		if lc.DecSigned {
			g = e.c.And(e.c.SLe(BVConst(0, ov.Sort.W), ov), e.c.SLt(nv, ov))
		} else {
			g = e.c.ULt(nv, ov)
		}
		e.emit(s, prefix+".decreases", g, lc.Decreases.Pos)
	}
}

// ---------- return / defers

func (e *Exec) runDefers(s *State, f *Frame) {
	// Defers are executed by splicing calls; to keep the executor simple each deferred call is
	// performed immediately here in LIFO order; inlined bodies run as nested frames and control
	// returns to this RunDefers instruction until the list is empty.
	if len(f.defers) == 0 {
		return
	}
	d := f.defers[len(f.defers)-1]
	f.defers = f.defers[:len(f.defers)-1]
	f.ip-- // re-execute RunDefers after the deferred call completes
	e.callValue(s, f, nil, d.fnv, d.args, d.instr.Pos(), d.instr)
}

func (e *Exec) execReturn(s *State, f *Frame, in *ssa.Return) {
	var res []Value
	for _, r := range in.Results {
		res = append(res, e.get(f, r))
	}
	if f.pureRet != nil {
		var v Value
		if len(res) == 1 {
			v = res[0]
		} else {
			v = TupleV(res)
		}
		*f.pureRet = append(*f.pureRet, pureResult{pc: append([]*Term(nil), s.pc[s.pcBase:]...), val: v})
		s.dead = true
		return
	}
	if f.isTop {
		e.topReturn(s, f, res, in)
		s.dead = true
		return
	}
	// pop inlined frame
	s.frames = s.frames[:len(s.frames)-1]
	caller := s.top()
	if f.call != nil {
		if len(res) == 1 {
			caller.env[f.call] = res[0]
		} else {
			caller.env[f.call] = TupleV(res)
		}
	}
}

// ---------- sorting helper

func sortObls(os []*Obligation) {
	sort.SliceStable(os, func(i, j int) bool { return os[i].Name < os[j].Name })
}
