package main

import (
	"bytes"
	"context"
	"crypto/sha1"
	"fmt"
	"os"
	"os/exec"
	"path/filepath"
	"strings"
	"sync"
	"time"
)

type solverSpec struct {
	name string
	args func(file string, timeout int) []string
	bin  string
}

var solvers = []solverSpec{
	{name: "z3-new", bin: "z3-new", args: func(f string, t int) []string { return []string{fmt.Sprintf("-T:%d", t), f} }},
	{name: "cvc5", bin: "cvc5", args: func(f string, t int) []string {
		return []string{"--lang", "smt2", fmt.Sprintf("--tlimit=%d", t*1000), f}
	}},
	{name: "z3", bin: "z3", args: func(f string, t int) []string { return []string{fmt.Sprintf("-T:%d", t), f} }},
}

type solveResult struct {
	status string
	solver string
	secs   float64
	out    string
}

func runSolver(ctx context.Context, sp solverSpec, file string, timeout int) solveResult {
	start := time.Now()
	cctx, cancel := context.WithTimeout(ctx, time.Duration(timeout+2)*time.Second)
	defer cancel()
	cmd := exec.CommandContext(cctx, sp.bin, sp.args(file, timeout)...)
	var out bytes.Buffer
	cmd.Stdout = &out
	cmd.Stderr = &out
	_ = cmd.Run()
	first := strings.TrimSpace(strings.SplitN(out.String(), "\n", 2)[0])
	st := "unknown"
	switch first {
	case "unsat":
		st = "unsat"
	case "sat":
		st = "sat"
	case "timeout":
		st = "timeout"
	case "unknown":
		st = "unknown"
	default:
		if cctx.Err() != nil {
			st = "timeout"
		} else if first != "" {
			st = "error"
		}
	}
	return solveResult{status: st, solver: sp.name, secs: time.Since(start).Seconds(), out: out.String()}
}

// race runs the given solvers concurrently; the first definitive answer wins.
func race(file string, specs []solverSpec, timeout int) solveResult {
	ctx, cancel := context.WithCancel(context.Background())
	defer cancel()
	ch := make(chan solveResult, len(specs))
	for _, sp := range specs {
		go func(sp solverSpec) { ch <- runSolver(ctx, sp, file, timeout) }(sp)
	}
	var last solveResult
	var all []string
	for range specs {
		r := <-ch
		all = append(all, fmt.Sprintf("%s:%s(%.2fs)", r.solver, r.status, r.secs))
		if r.status == "unsat" || r.status == "sat" {
			r.out = strings.Join(all, " ") + "\n" + r.out
			return r
		}
		if last.status == "" || r.status == "error" {
			last = r
		}
	}
	if last.status == "error" {
		// keep the error text for diagnosis
		last.out = strings.Join(all, " ") + "\n" + last.out
		last.status = "unknown"
		return last
	}
	last.out = strings.Join(all, " ")
	return last
}

type solveStats struct {
	bySolver map[string]int
	secs     float64
	queries  int
}

// discharge runs all obligations with an SMT text; identical texts are solved once.
func discharge(obls []*Obligation, scratch string, timeout int, thorough bool) *solveStats {
	st := &solveStats{bySolver: map[string]int{}}
	type job struct {
		file  string
		light string
		obs   []*Obligation
		probe bool
	}
	byHash := map[string]*job{}
	var jobs []*job
	// batches first: one query for the conjunction of a group of goals
	{
		groups := map[string][]*Obligation{}
		var order []string
		for _, o := range obls {
			if o.BatchSMT != "" {
				if _, ok := groups[o.BatchSMT]; !ok {
					order = append(order, o.BatchSMT)
				}
				groups[o.BatchSMT] = append(groups[o.BatchSMT], o)
			}
		}
		var mu sync.Mutex
		sem := make(chan struct{}, 12)
		var wg sync.WaitGroup
		for _, q := range order {
			wg.Add(1)
			go func(q string) {
				defer wg.Done()
				sem <- struct{}{}
				defer func() { <-sem }()
				h := fmt.Sprintf("%x", sha1.Sum([]byte(q)))
				file := filepath.Join(scratch, "batch-"+h+".smt2")
				_ = os.WriteFile(file, []byte(q), 0o644)
				r := race(file, solvers[:1], 5)
				mu.Lock()
				st.secs += r.secs
				st.queries++
				if r.status == "unsat" {
					for _, o := range groups[q] {
						o.Status, o.Solver, o.Secs = "unsat", r.solver+"(batch)", r.secs/float64(len(groups[q]))
						o.batchDone = true
						st.bySolver[r.solver]++
					}
				}
				mu.Unlock()
			}(q)
		}
		wg.Wait()
	}
	// members of a failed batch get their own queries now (built on demand, single-threaded: the executor that
	// builds them is not safe for concurrent use)
	for _, o := range obls {
		if o.lazy != nil && !o.batchDone {
			o.lazy()
		}
	}
	// reachability probes of one function: solved in order until the first reachable return
	{
		byFn := map[string][]*Obligation{}
		var fns []string
		for _, o := range obls {
			if o.Probe && strings.Contains(o.Kind, "reach.ret") {
				if _, ok := byFn[o.Fn]; !ok {
					fns = append(fns, o.Fn)
				}
				byFn[o.Fn] = append(byFn[o.Fn], o)
			}
		}
		var wg sync.WaitGroup
		sem := make(chan struct{}, 12)
		var mu sync.Mutex
		for _, fn := range fns {
			wg.Add(1)
			go func(list []*Obligation) {
				defer wg.Done()
				sem <- struct{}{}
				defer func() { <-sem }()
				found := false
				for _, o := range list {
					if found {
						o.Status, o.Solver, o.batchDone = "skipped", "-", true
						continue
					}
					h := fmt.Sprintf("%x", sha1.Sum([]byte(o.SMT)))
					file := filepath.Join(scratch, "probe-"+h+".smt2")
					_ = os.WriteFile(file, []byte(o.SMT), 0o644)
					r := race(file, solvers[:1], 5)
					if r.status != "sat" && r.status != "unsat" {
						r = race(file, solvers, timeout)
					}
					mu.Lock()
					st.secs += r.secs
					st.queries++
					mu.Unlock()
					o.Status, o.Solver, o.Secs, o.batchDone = r.status, r.solver, r.secs, true
					if r.status == "sat" {
						found = true
					}
				}
			}(byFn[fn])
		}
		wg.Wait()
	}
	for _, o := range obls {
		if o.batchDone {
			continue
		}
		if o.SMT == "" {
			if o.Trivial {
				st.bySolver["simplifier"]++
			}
			continue
		}
		h := fmt.Sprintf("%x", sha1.Sum([]byte(o.SMT)))
		j := byHash[h]
		if j == nil {
			j = &job{file: filepath.Join(scratch, h+".smt2"), probe: o.Probe}
			byHash[h] = j
			jobs = append(jobs, j)
			_ = os.WriteFile(j.file, []byte(o.SMT), 0o644)
			if o.SMTLight != "" {
				j.light = filepath.Join(scratch, h+".light.smt2")
				_ = os.WriteFile(j.light, []byte(o.SMTLight), 0o644)
			}
		}
		j.obs = append(j.obs, o)
	}
	st.queries += len(jobs)
	var mu sync.Mutex
	sem := make(chan struct{}, 12)
	var wg sync.WaitGroup
	for _, j := range jobs {
		wg.Add(1)
		go func(j *job) {
			defer wg.Done()
			sem <- struct{}{}
			defer func() { <-sem }()
			var r solveResult
			pre := 0.0
			if j.light != "" && !j.probe {
				// stage 0: without quantifier-instantiation axioms (fewer hypotheses; unsat is still sound)
				r0 := race(j.light, solvers[:1], 2)
				pre = r0.secs
				if r0.status == "unsat" {
					r = r0
					r.solver += "(light)"
				}
			}
			if r.status == "" {
				// stage 1: one fast solver
				r = race(j.file, solvers[:1], 3)
				if r.status != "unsat" && r.status != "sat" {
					r2 := race(j.file, solvers, timeout)
					r2.secs += r.secs
					r = r2
				}
				r.secs += pre
			}
			if thorough && (r.status == "unsat" || r.status == "sat") {
				// cross-check: no other solver may give the opposite answer
				for _, sp := range solvers {
					if sp.name == r.solver {
						continue
					}
					o := runSolver(context.Background(), sp, j.file, timeout)
					if (o.status == "sat" || o.status == "unsat") && o.status != r.status {
						r.status = "disagree"
						r.out += fmt.Sprintf("\nDISAGREEMENT: %s says %s", sp.name, o.status)
					}
				}
			}
			model := ""
			if r.status == "sat" && !j.probe {
				model = getModel(j.file, r.solver)
			}
			mu.Lock()
			st.secs += r.secs
			for _, o := range j.obs {
				o.Status = r.status
				o.Solver = r.solver
				o.Secs = r.secs
				o.Model = model
				if r.status != "unsat" && r.status != "sat" {
					o.Model = r.out
				}
				if (r.status == "unsat" && !o.Probe) || (r.status == "sat" && o.Probe) {
					st.bySolver[r.solver]++
				}
			}
			mu.Unlock()
		}(j)
	}
	wg.Wait()
	// inconclusive results are retried alone (no competition for cores) with a longer limit, so that
	// machine load never turns a provable obligation into an alarm; a handful that is still undecided gets a
	// last, much longer attempt (a genuine failure usually leaves many undecided: then the long attempt is skipped)
	for stage, mult := range []int{4, 15} {
		var pending []*job
		for _, j := range jobs {
			if len(j.obs) == 0 || j.probe {
				continue
			}
			s0 := j.obs[0].Status
			if s0 == "unsat" || s0 == "sat" || s0 == "disagree" {
				continue
			}
			pending = append(pending, j)
		}
		if stage == 1 && len(pending) > 6 {
			break
		}
		for _, j := range pending {
			r := race(j.file, solvers, timeout*mult)
			st.secs += r.secs
			if r.status == "unsat" || r.status == "sat" {
				model := ""
				if r.status == "sat" {
					model = getModel(j.file, r.solver)
				}
				for _, o := range j.obs {
					o.Status, o.Solver, o.Secs, o.Model = r.status, r.solver+"(retry)", r.secs, model
					if r.status == "unsat" {
						st.bySolver[r.solver]++
					}
				}
			}
		}
	}
	return st
}

func getModel(file, solver string) string {
	src, err := os.ReadFile(file)
	if err != nil {
		return ""
	}
	mf := file + ".model.smt2"
	_ = os.WriteFile(mf, append(src, []byte("(get-model)\n")...), 0o644)
	defer os.Remove(mf)
	for _, sp := range solvers {
		if sp.name == solver {
			r := runSolver(context.Background(), sp, mf, 20)
			if len(r.out) > 200000 {
				return r.out[:200000]
			}
			return r.out
		}
	}
	return ""
}
