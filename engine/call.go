package main

import (
	"fmt"
	"go/token"
	"go/types"
	"strings"

	"golang.org/x/tools/go/ssa"
)

func (e *Exec) execCall(s *State, f *Frame, in ssa.Value, common *ssa.CallCommon, pos token.Pos) {
	var args []Value
	for _, a := range common.Args {
		args = append(args, e.get(f, a))
	}
	var fnv Value
	if common.IsInvoke() {
		fnv = &boundInvoke{recv: e.get(f, common.Value), method: common.Method}
	} else {
		fnv = e.get(f, common.Value)
	}
	e.callValue(s, f, in, fnv, args, pos, in.(ssa.Instruction))
}

// callValue performs a call of fnv with args; the result is bound to |in| in frame f (if in != nil).
func (e *Exec) callValue(s *State, f *Frame, in ssa.Value, fnv Value, args []Value, pos token.Pos, key ssa.Instruction) {
	setRes := func(v Value) {
		if in != nil {
			f.env[in] = v
		}
	}
	var resType types.Type
	if in != nil {
		resType = in.Type()
	}
	if s.pure == 0 {
		if fv, ok := fnv.(*FuncV); !ok || !(fv.Name == "builtin:len" || fv.Name == "builtin:cap") {
			s.prevMapEpoch = s.mapEpoch
			s.mapEpoch = e.nextEpoch() // the callee may mutate any map
		}
	}
	switch fv := fnv.(type) {
	case *boundInvoke:
		iv, ok := fv.recv.(*IfaceV)
		if ok && iv.Typ != nil {
			// statically resolvable dynamic type
			if m := e.w.prog.LookupMethod(iv.Typ, fv.method.Pkg(), fv.method.Name()); m != nil {
				e.callFunc(s, f, in, m, append([]Value{iv.Val}, args...), nil, pos, key, setRes, resType)
				return
			}
		}
		if ok && s.pure == 0 {
			e.check(s, "nil", e.c.Not(iv.Nil), pos, key)
		}
		k := "(" + fv.method.Type().(*types.Signature).Recv().Type().String() + ")." + fv.method.Name()
		e.callExternOrHavoc(s, f, k, fv.method.Type().(*types.Signature), append([]Value{fv.recv}, args...), pos, key, setRes, resType, true)
		return
	case *FuncV:
		if strings.HasPrefix(fv.Name, "builtin:") {
			if fv.Name == "builtin:copy" && in != nil && s.pure == 0 {
				// copy from a source of small constant length into a destination of unknown length: split into
				// "destination is long enough" (exact byte stores) and "destination is shorter" (generic model)
				if d, ok := args[0].(*SliceV); ok && d.Base != nil && !d.Len.Const {
					if _, _, slen := e.srcArr(s, args[1]); slen.Const && slen.C > 0 && slen.C <= 32 {
						short := e.c.ULt(d.Len, slen)
						other := s.clone()
						other.assume(short)
						other.trace = append(other.trace, e.posStr(pos)+": copy destination shorter than source")
						of := other.frames[len(other.frames)-1]
						of.env[in] = e.copyBuiltin(other, args[0], args[1])
						e.work = append(e.work, other)
						s.assume(e.c.Not(short))
						nd := &SliceV{Base: d.Base, Off: d.Off, Len: slen, Cap: d.Cap, Nil: d.Nil, Elem: d.Elem}
						e.copyBuiltin(s, nd, args[1])
						setRes(slen)
						return
					}
				}
			}
			setRes(e.builtin(s, f, fv.Name[8:], args, key, pos, resType))
			return
		}
		if fv.Fn != nil {
			e.callFunc(s, f, in, fv.Fn, args, fv.Free, pos, key, setRes, resType)
			return
		}
		// opaque function value (parameter / field): extern by name
		var sig *types.Signature
		if c, ok := key.(ssa.CallInstruction); ok {
			sig = c.Common().Signature()
		}
		if s.pure == 0 {
			e.check(s, "nil", e.c.Not(fv.Nil), pos, key)
		}
		// a function value is known by its source name; `funcvalue:<name>/<n>` (n = number of arguments) takes
		// precedence, for packages where two parameters of different signatures share a name
		fname := cleanHint(fv.Name)
		if c, ok := key.(ssa.CallInstruction); ok {
			// prefer the name of the variable the function value is called through
			if n := funcValueName(c.Common().Value); n != "" && e.w.externFor(e.fn, "funcvalue:"+fname) == nil {
				fname = n
			}
		}
		fkey := "funcvalue:" + fname
		if e.w.externFor(e.fn, fmt.Sprintf("%s/%d", fkey, len(args))) != nil {
			fkey = fmt.Sprintf("%s/%d", fkey, len(args))
		}
		e.callExternOrHavoc(s, f, fkey, sig, args, pos, key, setRes, resType, false)
		return
	}
	panic(unsupported(fmt.Sprintf("call of %T", fnv)))
}

func cleanHint(h string) string {
	// freshVal hints look like "p.validate" or "lh.fn#0:t3"; keep the last path component
	if i := strings.LastIndexAny(h, ".:"); i >= 0 {
		return h[i+1:]
	}
	return h
}

func (e *Exec) callFunc(s *State, f *Frame, in ssa.Value, fn *ssa.Function, args []Value, free []Value, pos token.Pos, key ssa.Instruction, setRes func(Value), resType types.Type) {
	full := fn.String()
	if origin := fn.Origin(); origin != nil {
		full = origin.String()
	}
	e.atCallAsserts(s, f, full, fn.Name(), args, pos, key)
	// intrinsics
	if e.intrinsic(s, f, full, fn, args, pos, key, setRes, resType) {
		return
	}
	// the lemma under proof may ask for a callee to be inlined (optionally with its loops unrolled)
	if e.con != nil && s.pure == 0 && fn.Blocks != nil {
		if n, ok := e.con.InlineCalls[fn.Name()]; ok && len(s.frames) < 8 {
			e.pushFrame(s, fn, args, free, in)
			s.top().unroll = n
			return
		}
	}
	// a nested invocation of the function under proof may be given its own (assumed) contract: ghost state that
	// describes "the message this invocation walks" is per invocation, which the single ghost global cannot express
	if fn == e.fn && s.pure == 0 {
		if ext := e.w.externFor(e.fn, "recursive:"+full); ext != nil {
			e.applyContract(s, f, ext, fn.Signature, args, pos, key, setRes, resType, "recursive:"+full)
			return
		}
	}
	// contract?
	if con := e.w.contractFor(fn); con != nil {
		if con.Opaque && resType != nil {
			// uninterpreted spec function: the same arguments give the same result, nothing else is known
			setRes(e.pureResult(s, con, args, resType, fnKey(fn)))
			return
		}
		if !con.Inline && !(s.pure > 0 && con.Pure && fn.Blocks != nil && e.w.loopsOf(fn).n == 0) {
			e.applyContract(s, f, con, fn.Signature, args, pos, key, setRes, resType, fnKey(fn))
			return
		}
	}
	if ext := e.w.externFor(e.fn, full); ext != nil {
		e.applyContract(s, f, ext, fn.Signature, args, pos, key, setRes, resType, full)
		return
	}
	if fn.Blocks != nil && e.canInline(s, fn) {
		e.pushFrame(s, fn, args, free, in)
		return
	}
	if s.pure == 0 {
		e.note("call havoc'd (no contract, not inlined): " + full)
		s.trace = append(s.trace, e.posStr(pos)+": call "+full+" (havoc)")
	}
	e.havocCall(s, fn.Signature, args, free, setRes, resType, full)
}

// atCallAsserts emits the call-site assertions (`at call <callee>: assert e`) of the function that contains the
// call; argN:T in the expression denotes the N-th argument of the call (receiver first).
func (e *Exec) atCallAsserts(s *State, f *Frame, full, name string, args []Value, pos token.Pos, key ssa.Instruction) {
	if s.pure > 0 || f == nil {
		return
	}
	topc := e.w.contractFor(f.fn)
	if topc == nil || len(topc.AtCalls) == 0 {
		return
	}
	n := e.counter("call", key)
	// call-site assertions speak about the state BEFORE the call: maps are as they were
	curEpoch := s.mapEpoch
	s.mapEpoch = s.prevMapEpoch
	defer func() { s.mapEpoch = curEpoch }()
	for i, ac := range topc.AtCalls {
		if ac.Expr.Expr == nil {
			continue
		}
		if ac.Site > 0 && ac.SitePos != pos {
			continue
		}
		if strings.HasPrefix(ac.Callee, "(") {
			if shortRecv(full) != ac.Callee {
				continue
			}
		} else if !(ac.Callee == full || ac.Callee == name || strings.HasSuffix(full, "."+ac.Callee) || strings.HasSuffix(full, ")."+ac.Callee)) {
			continue
		}
		var g, h *Term
		e.callArgs = args
		// old(e) in a call-site assertion of the function under proof is e at the function's entry
		var oc *oldCtx
		if f.fn == e.fn && e.entryState != nil {
			oc = &oldCtx{s: e.entryState, env: e.entryVars}
		}
		e.withPol(1, func() { g = e.evalClauseEnv(s, f, ac.Expr, nil, oc) })
		e.emit(s, fmt.Sprintf("call.%d:%s.assert.%d", n, name, i+1), g, pos)
		e.withPol(-1, func() { h = e.evalClauseEnv(s, f, ac.Expr, nil, oc) })
		e.callArgs = nil
		s.assume(h)
	}
}

func (e *Exec) canInline(s *State, fn *ssa.Function) bool {
	if len(s.frames) >= 8 {
		return false
	}
	for _, fr := range s.frames {
		if fr.fn == fn {
			return false // recursion
		}
	}
	con := e.w.contractFor(fn)
	if con != nil && con.Inline {
		return true
	}
	li := e.w.loopsOf(fn)
	if s.pure > 0 {
		return li.n == 0
	}
	n := 0
	for _, b := range fn.Blocks {
		n += len(b.Instrs)
	}
	if li.n > 0 {
		return false
	}
	if fn.Parent() != nil {
		// function literal: always inline (immediately-invoked closures and deferred funcs)
		return n <= 600
	}
	return n <= e.w.inlineLimit
}

func (e *Exec) pushFrame(s *State, fn *ssa.Function, args []Value, free []Value, in ssa.Value) {
	s.nframes++
	nf := &Frame{id: s.nframes, fn: fn, block: fn.Blocks[0], env: map[ssa.Value]Value{}, call: in}
	if len(args) != len(fn.Params) {
		panic(unsupported(fmt.Sprintf("arity mismatch calling %s: %d vs %d", fn, len(args), len(fn.Params))))
	}
	for i, p := range fn.Params {
		nf.env[p] = args[i]
	}
	for i, fv := range fn.FreeVars {
		if i < len(free) {
			nf.env[fv] = free[i]
		}
	}
	if s.pure == 0 {
		s.trace = append(s.trace, "inline "+fn.String())
	}
	s.frames = append(s.frames, nf)
}

// havocCall models a call to unknown code.
func (e *Exec) havocCall(s *State, sig *types.Signature, args []Value, free []Value, setRes func(Value), resType types.Type, name string) {
	if s.pure == 0 {
		vis := map[*Obj]bool{}
		for _, a := range args {
			e.havocReach(s, a, vis)
		}
		for _, a := range free {
			e.havocReach(s, a, vis)
		}
	}
	if resType != nil {
		setRes(e.freshValS(s, resType, "r."+shortName(name)))
	}
}

func shortName(n string) string {
	if i := strings.LastIndex(n, "/"); i >= 0 {
		n = n[i+1:]
	}
	return n
}

// havocReach havocs every object reachable from v.
func (e *Exec) havocReach(s *State, v Value, vis map[*Obj]bool) {
	switch x := v.(type) {
	case *PtrV:
		if x.Ref != nil {
			if len(x.Ref.Path) > 0 && x.Ref.Obj != e.ghostObj {
				// pointer to a part of an object (a field): only that part is reachable through it
				allFields := true
				for _, pe := range x.Ref.Path {
					if pe.Index != nil {
						allFields = false
					}
				}
				if t := e.typeAt(x.Ref); t != nil && allFields {
					old := e.load(s, x.Ref)
					e.havocReach(s, old, vis)
					e.store(s, x.Ref, e.freshValS(s, t, "hv."+x.Ref.Obj.Name))
					return
				}
			}
			e.havocObj(s, x.Ref.Obj, vis)
		}
	case *SliceV:
		if x.Base != nil {
			if len(x.Base.Path) > 0 {
				e.havocReach(s, &PtrV{Ref: x.Base, Nil: False}, vis)
				return
			}
			e.havocObj(s, x.Base.Obj, vis)
		}
	case *StructV:
		for _, fv := range x.F {
			e.havocReach(s, fv, vis)
		}
	case *IfaceV:
		if x.Val != nil {
			e.havocReach(s, x.Val, vis)
		}
	case *FuncV:
		for _, fv := range x.Free {
			e.havocReach(s, fv, vis)
		}
	case TupleV:
		for _, fv := range x {
			e.havocReach(s, fv, vis)
		}
	case *boundInvoke:
		e.havocReach(s, x.recv, vis)
	}
}

func (e *Exec) havocObj(s *State, o *Obj, vis map[*Obj]bool) {
	if vis[o] {
		return
	}
	vis[o] = true
	if o == e.ghostObj {
		return
	}
	if o.Global != nil && e.w.globalStable(o.Global) {
		return
	}
	// first havoc what the current value points to
	if cur, ok := s.heap.m[o]; ok {
		e.havocReach(s, cur, vis)
	} else if cur, ok := e.lazyInit[o]; ok {
		e.havocReach(s, cur, vis)
	} else {
		// never read so far: nothing to forget, but a later first read must not see the entry value
		if s.tainted == nil {
			s.tainted = map[*Obj]bool{}
		}
		s.tainted[o] = true
		return
	}
	var nv Value
	if o.IsArr {
		nv = e.freshArr(o.Typ, "hv."+o.Name)
	} else {
		nv = e.freshValS(s, o.Typ, "hv."+o.Name)
	}
	s.heap.m[o] = nv
	e.noteWrite(s, o)
}

func (e *Exec) callExternOrHavoc(s *State, f *Frame, key string, sig *types.Signature, args []Value, pos token.Pos, ikey ssa.Instruction, setRes func(Value), resType types.Type, invoke bool) {
	short := key
	if i := strings.LastIndexAny(key, ".:"); i >= 0 {
		short = key[i+1:]
	}
	if i := strings.Index(short, "/"); i >= 0 {
		short = short[:i] // "funcvalue:cb/3": call-site assertions name the variable, not the arity
	}
	e.atCallAsserts(s, f, key, short, args, pos, ikey)
	if ext := e.w.externFor(e.fn, key); ext != nil {
		e.applyContract(s, f, ext, sig, args, pos, ikey, setRes, resType, key)
		return
	}
	if s.pure == 0 {
		e.note("call havoc'd (dynamic dispatch, no extern contract): " + key)
		s.trace = append(s.trace, e.posStr(pos)+": call "+key+" (havoc)")
	}
	e.havocCall(s, sig, args, nil, setRes, resType, key)
}

// applyContract: assert requires, havoc modifies, assume ensures.
func (e *Exec) applyContract(s *State, f *Frame, con *Contract, sig *types.Signature, args []Value, pos token.Pos, key ssa.Instruction, setRes func(Value), resType types.Type, name string) {
	cfn := con.Fn
	env := map[types.Object]Value{}
	if cfn == nil {
		panic(unsupported("contract without function: " + con.Key))
	}
	if len(cfn.Params) != len(args) {
		panic(unsupported(fmt.Sprintf("contract %s arity mismatch (%d params, %d args)", con.Key, len(cfn.Params), len(args))))
	}
	for i, p := range cfn.Params {
		if obj := p.Object(); obj != nil {
			env[obj] = args[i]
		}
	}
	short := con.Short
	n := 0
	if s.pure == 0 {
		n = e.counter("call", key)
		s.trace = append(s.trace, fmt.Sprintf("%s: call %s (by contract)", e.posStr(pos), short))
		for i, r := range con.Requires {
			var g, h *Term
			if !applicable(func() { e.withPol(1, func() { g = e.evalClauseEnv(s, nil, r, env, nil) }) }) {
				continue
			}
			assumed := false
			if top := e.w.contractFor(s.frames[0].fn); top != nil && top.AssumeRequires != nil {
				nm := short
				if k := strings.LastIndexAny(nm, ".)"); k >= 0 {
					nm = nm[k+1:]
				}
				assumed = top.AssumeRequires[nm] || top.AssumeRequires[short]
			}
			if assumed {
				e.note("precondition of " + short + " assumed at the call site (assume_requires): " + r.Text)
			} else {
				e.emit(s, fmt.Sprintf("call.%d:%s.requires.%d", n, short, i+1), g, pos)
			}
			e.withPol(-1, func() { h = e.evalClauseEnv(s, nil, r, env, nil) })
			s.assume(h)
		}
	}
	pre := &State{heap: s.heap.clone(), candSet: map[string]bool{}, ex: e, pure: 1}
	preEnv := env
	// modifies
	if s.pure == 0 {
		if !con.HasModifies && !con.Pure {
			vis := map[*Obj]bool{}
			for _, a := range args {
				e.havocReach(s, a, vis)
			}
		}
		if con.HasModifies || con.AlsoModifies {
			for _, m := range con.Modifies {
				if !applicable(func() { e.havocLoc(s, m, env) }) {
					vis := map[*Obj]bool{}
					for _, a := range args {
						e.havocReach(s, a, vis)
					}
				}
			}
		}
	}
	// results
	var res Value
	if resType != nil {
		if con.Pure && con.Fn != nil {
			// deterministic: result is an uninterpreted function of scalar args when possible
			res = e.pureResult(s, con, args, resType, name)
		} else {
			res = e.freshValS(s, resType, "r."+shortName(short))
		}
		setRes(res)
	}
	post := map[types.Object]Value{}
	for k, v := range env {
		post[k] = v
	}
	results := resultList(res, cfn.Signature)
	rt := cfn.Signature.Results()
	for i := 0; i < rt.Len() && i < len(results); i++ {
		// a function-typed result is known by the name the contract gives it (extern key "funcvalue:<name>")
		if fv, ok := results[i].(*FuncV); ok && fv.Fn == nil && rt.At(i).Name() != "" {
			fv.Name = rt.At(i).Name()
		}
	}
	for i := 0; i < rt.Len(); i++ {
		if i < len(results) {
			post[rt.At(i)] = results[i]
		}
	}
	old := &oldCtx{s: pre, env: preEnv}
	for _, gs := range con.GhostSets {
		v := e.evalClauseValEnv(s, nil, gs.RHS, post, old, results)
		ref := e.evalRef(s, nil, gs.LHS, gs.RHS.Info, post, results)
		e.store(s, ref, v)
	}
	for _, en := range con.Ensures {
		var g *Term
		if !applicable(func() { e.withPol(-1, func() { g = e.evalClauseEnvRes(s, nil, en, post, old, results) }) }) {
			continue
		}
		s.assume(g)
	}
}

func resultList(res Value, sig *types.Signature) []Value {
	if res == nil {
		return nil
	}
	if tv, ok := res.(TupleV); ok && sig.Results().Len() != 1 {
		return []Value(tv)
	}
	return []Value{res}
}

// pureResult gives a pure function's result; the same scalar arguments give the same result symbol.
func (e *Exec) pureResult(s *State, con *Contract, args []Value, resType types.Type, name string) Value {
	var ts []*Term
	ok := true
	var flat func(v Value, depth int)
	var flatT func(v Value, t types.Type, depth int)
	// flatT: like flat, but knows the Go type: a fixed-size array of scalars is passed element by element, so that
	// two arrays that agree on their N elements are the same argument (SMT arrays are compared on every index)
	flatT = func(v Value, t types.Type, depth int) {
		if t != nil {
			switch u := t.Underlying().(type) {
			case *types.Array:
				if arr, isT := v.(*Term); isT && u.Len() <= 64 && arr.Sort.K == KArr {
					for i := int64(0); i < u.Len(); i++ {
						ts = append(ts, e.c.Select(arr, BVConst(uint64(i), 64)))
					}
					return
				}
			case *types.Struct:
				if sv, isS := v.(*StructV); isS && len(sv.F) == u.NumFields() && depth <= 3 {
					for i, f := range sv.F {
						flatT(f, u.Field(i).Type(), depth+1)
					}
					return
				}
			}
		}
		flat(v, depth)
	}
	flat = func(v Value, depth int) {
		if depth > 3 {
			ok = false
			return
		}
		switch x := v.(type) {
		case *Term:
			ts = append(ts, x)
		case *StructV:
			for _, f := range x.F {
				flat(f, depth+1)
			}
		case *SoAV:
			for _, f := range x.F {
				flat(f, depth+1)
			}
		case *SliceV:
			// a slice argument: its contents (arrays), offset and length
			if x.Base == nil {
				ok = false
				return
			}
			flat(e.load(s, x.Base), depth+1)
			ts = append(ts, x.Off, x.Len)
		case *StringV:
			// a string argument: its bytes, offset and length (two equal strings with different representations
			// are not identified: fewer equalities, sound)
			ts = append(ts, x.Arr, x.Off, x.Len)
		case *IfaceV:
			if x.ID == nil {
				ok = false
				return
			}
			// normalised identity: all nil interfaces are the same argument
			ts = append(ts, e.c.Ite(x.Nil, BVConst(0, 64), x.ID), x.Nil)
		case *OpaqueV:
			if x.ID == nil {
				ok = false
				return
			}
			ts = append(ts, x.ID)
		case *PtrV:
			// a pointer argument is known by the identity of the object it points to
			switch {
			case x.ID != nil:
				ts = append(ts, e.c.Ite(x.Nil, BVConst(0, 64), x.ID), x.Nil)
			case x.Ref != nil && len(x.Ref.Path) == 0:
				ts = append(ts, BVConst(uint64(x.Ref.Obj.ID), 64), x.Nil)
			case x.Ref != nil && fieldsOnly(x.Ref.Path):
				// a pointer to a (nested) field of an object: the object's identity and the field path, as one constant
				id := uint64(x.Ref.Obj.ID)
				for _, pe := range x.Ref.Path {
					id = id*1000003 + uint64(pe.Field) + 1
				}
				ts = append(ts, BVConst(id|1<<62, 64), x.Nil)
			default:
				ok = false
			}
		default:
			ok = false
		}
	}
	var sig *types.Signature
	if con != nil && con.Fn != nil {
		sig = con.Fn.Signature
	}
	for i, a := range args {
		var pt types.Type
		if sig != nil {
			j := i
			if sig.Recv() != nil {
				j = i - 1
				if i == 0 {
					pt = sig.Recv().Type()
				}
			}
			if j >= 0 && j < sig.Params().Len() {
				pt = sig.Params().At(j).Type()
			}
		}
		flatT(a, pt, 0)
	}
	if ok {
		if isScalar(resType) {
			return e.c.UF("pure_"+name, scalarSort(resType), ts...)
		}
		switch u := resType.Underlying().(type) {
		case *types.Array:
			if es := elemSort(u.Elem()); es != nil {
				return e.c.UF("pure_"+name, SArr(es), ts...)
			}
		case *types.Interface:
			return &IfaceV{Nil: e.c.UF("pure_"+name+".nil", SBool, ts...), ID: e.c.UF("pure_"+name+".id", SBV(64), ts...)}
		}
	}
	return e.freshValS(s, resType, "r."+shortName(name))
}

// havocLoc havocs the location(s) named by a modifies clause.
func (e *Exec) havocLoc(s *State, m *Clause, env map[types.Object]Value) {
	for _, x := range m.Exprs {
		e.havocLocExpr(s, m, x, env)
	}
}

// ---------- builtins

func (e *Exec) builtin(s *State, f *Frame, name string, args []Value, key ssa.Instruction, pos token.Pos, resType types.Type) Value {
	c := e.c
	switch name {
	case "len":
		switch x := args[0].(type) {
		case *SliceV:
			return x.Len
		case *StringV:
			return x.Len
		case *OpaqueV:
			return e.mapLen(s, x)
		case *Term, *SoAV, *OpaqueArrV:
			// array value
		}
		if call, ok := key.(ssa.CallInstruction); ok {
			t := call.Common().Args[0].Type().Underlying()
			if p, ok := t.(*types.Pointer); ok {
				t = p.Elem().Underlying()
			}
			if a, ok := t.(*types.Array); ok {
				return BVConst(uint64(a.Len()), 64)
			}
		}
		panic(unsupported(fmt.Sprintf("len of %T", args[0])))
	case "cap":
		switch x := args[0].(type) {
		case *SliceV:
			return x.Cap
		}
		if call, ok := key.(ssa.CallInstruction); ok {
			t := call.Common().Args[0].Type().Underlying()
			if p, ok := t.(*types.Pointer); ok {
				t = p.Elem().Underlying()
			}
			if a, ok := t.(*types.Array); ok {
				return BVConst(uint64(a.Len()), 64)
			}
		}
		panic(unsupported(fmt.Sprintf("cap of %T", args[0])))
	case "copy":
		return e.copyBuiltin(s, args[0], args[1])
	case "append":
		return e.appendBuiltin(s, args[0], args[1], resType)
	case "SliceData", "unsafe.SliceData":
		sv, ok := args[0].(*SliceV)
		if !ok || sv.Base == nil {
			panic(unsupported("unsafe.SliceData of unknown slice"))
		}
		if b, ok := sv.Elem.Underlying().(*types.Basic); !ok || b.Kind() != types.Uint8 {
			panic(unsupported("unsafe.SliceData of non-byte slice"))
		}
		return &PtrV{Ref: sv.Base.extend(PElem{Index: sv.Off}), Nil: sv.Nil,
			raw: &addrInfo{base: sv.Base, idx: sv.Off, lo: sv.Off, hi: c.Add(sv.Off, sv.Len)}}
	case "ssa:wrapnilchk":
		return args[0]
	case "ssa:deferstack":
		return &OpaqueV{ID: BVConst(0, 64), Nil: False}
	case "print", "println":
		return nil
	case "min", "max":
		call := key.(ssa.CallInstruction)
		t := call.Common().Args[0].Type()
		r := args[0].(*Term)
		for _, a := range args[1:] {
			b := a.(*Term)
			var lt *Term
			if isSigned(t) {
				lt = c.SLt(b, r)
			} else {
				lt = c.ULt(b, r)
			}
			if name == "max" {
				lt = c.Not(c.Or(lt, c.Eq(b, r)))
				r = c.Ite(lt, b, r)
				_ = lt
			} else {
				r = c.Ite(lt, b, r)
			}
		}
		if name == "max" {
			// recompute properly: max = ite(a<b, b, a)
			r = args[0].(*Term)
			for _, a := range args[1:] {
				b := a.(*Term)
				var lt *Term
				if isSigned(t) {
					lt = c.SLt(r, b)
				} else {
					lt = c.ULt(r, b)
				}
				r = c.Ite(lt, b, r)
			}
		}
		return r
	case "delete", "clear", "close":
		s.mapEpoch = e.nextEpoch()
		return nil
	case "recover":
		return &IfaceV{Nil: True, ID: BVConst(0, 64)}
	case "panic":
		s.dead = true
		return nil
	}
	panic(unsupported("builtin " + name))
}

// leafArrays applies f to corresponding leaf array terms of array values.
func (e *Exec) mapArr(vals []Value, f func(ts []*Term) *Term) Value {
	switch x := vals[0].(type) {
	case *Term:
		ts := make([]*Term, len(vals))
		for i, v := range vals {
			t, ok := v.(*Term)
			if !ok {
				panic(unsupported("array shape mismatch"))
			}
			ts[i] = t
		}
		return f(ts)
	case *SoAV:
		n := &SoAV{F: make([]Value, len(x.F)), Str: x.Str}
		for k := range x.F {
			sub := make([]Value, len(vals))
			for i, v := range vals {
				sv, ok := v.(*SoAV)
				if !ok {
					panic(unsupported("array shape mismatch"))
				}
				sub[i] = sv.F[k]
			}
			n.F[k] = e.mapArr(sub, f)
		}
		return n
	case *OpaqueArrV:
		return e.newOpaqueArr(x.Elem, "mapped", false) // combined or partly havoc'd: nothing is remembered
	}
	panic(unsupported(fmt.Sprintf("mapArr on %T", vals[0])))
}

func (e *Exec) srcArr(s *State, v Value) (arr Value, off, ln *Term) {
	switch x := v.(type) {
	case *SliceV:
		if x.Base == nil {
			return nil, BVConst(0, 64), BVConst(0, 64)
		}
		return e.load(s, x.Base), x.Off, x.Len
	case *StringV:
		return x.Arr, x.Off, x.Len
	}
	panic(unsupported(fmt.Sprintf("copy source %T", v)))
}

func (e *Exec) copyBuiltin(s *State, dst, src Value) Value {
	c := e.c
	d, ok := dst.(*SliceV)
	if !ok {
		panic(unsupported("copy dst"))
	}
	sa, soff, slen := e.srcArr(s, src)
	n := c.Ite(c.ULt(d.Len, slen), d.Len, slen)
	if d.Base == nil || sa == nil {
		return BVConst(0, 64)
	}
	if n.Const && n.C == 0 {
		return n
	}
	da := e.load(s, d.Base)
	nv := e.mapArr([]Value{da, sa}, func(ts []*Term) *Term {
		dOld, sOld := ts[0], ts[1]
		// small constant copies are expanded into stores (exact, no quantifier)
		if n.Const && n.C <= 32 {
			r := dOld
			for i := uint64(0); i < n.C; i++ {
				k := BVConst(i, 64)
				r = c.Store(r, c.Add(d.Off, k), c.Select(sOld, c.Add(soff, k)))
			}
			return r
		}
		fresh := c.Fresh("cp", dOld.Sort)
		q := &Quant{forall: true, kind: quantIdx, always: true}
		q.body = func(i *Term) *Term {
			in := c.And(c.ULe(d.Off, i), c.ULt(c.Sub(i, d.Off), n))
			return c.Eq(c.Select(fresh, i), c.Ite(in, c.Select(sOld, c.Add(soff, c.Sub(i, d.Off))), c.Select(dOld, i)))
		}
		q.arrays = []string{fresh.S}
		s.quants = append(s.quants, q)
		return fresh
	})
	e.store(s, d.Base, nv)
	return n
}

func (e *Exec) appendBuiltin(s *State, dst, src Value, resType types.Type) Value {
	c := e.c
	d := dst.(*SliceV)
	st := resType.Underlying().(*types.Slice)
	sa, soff, slen := e.srcArr(s, src)
	if slen.Const && slen.C == 0 {
		return d
	}
	newLen := c.Add(d.Len, slen)
	o := e.newObj(fmt.Sprintf("append#%d", s.step), st.Elem(), true, s.step)
	var dOldV Value
	if d.Base != nil {
		dOldV = e.load(s, d.Base)
	} else {
		dOldV = e.zeroArr(st.Elem())
	}
	if sa == nil {
		sa = e.zeroArr(st.Elem())
	}
	nv := e.mapArr([]Value{dOldV, sa}, func(ts []*Term) *Term {
		dOld, sOld := ts[0], ts[1]
		fresh := c.Fresh("app", dOld.Sort)
		q := &Quant{forall: true, kind: quantIdx, always: true}
		q.body = func(i *Term) *Term {
			inOld := c.ULt(i, d.Len)
			inNew := c.And(c.ULe(d.Len, i), c.ULt(i, newLen))
			return c.And(
				c.Implies(inOld, c.Eq(c.Select(fresh, i), c.Select(dOld, c.Add(d.Off, i)))),
				c.Implies(inNew, c.Eq(c.Select(fresh, i), c.Select(sOld, c.Add(soff, c.Sub(i, d.Len))))))
		}
		q.arrays = []string{fresh.S}
		s.quants = append(s.quants, q)
		return fresh
	})
	s.heap.m[o] = nv
	e.note("append always yields a fresh backing array (no aliasing with its argument afterwards)")
	cp := c.Fresh("appcap", SBV(64))
	s.axiom(c.ULe(newLen, cp))
	s.axiom(c.ULe(cp, BVConst(maxCap, 64)))
	s.axiom(c.ULe(d.Len, newLen)) // no overflow: total length bounded by the address space
	return &SliceV{Base: &Ref{Obj: o}, Off: BVConst(0, 64), Len: newLen, Cap: cp, Nil: False, Elem: st.Elem()}
}

// ---------- intrinsics: verification vocabulary and a few library functions

func (e *Exec) intrinsic(s *State, f *Frame, full string, fn *ssa.Function, args []Value, pos token.Pos, key ssa.Instruction, setRes func(Value), resType types.Type) bool {
	c := e.c
	name := fn.Name()
	if fn.Origin() != nil {
		name = fn.Origin().Name()
	}
	if strings.HasPrefix(name, "verif_") {
		switch name {
		case "verif_assert":
			if s.pure == 0 {
				n := e.counter("assert", key)
				e.emit(s, fmt.Sprintf("assert.%d", n), args[0].(*Term), pos)
				s.assume(args[0].(*Term))
			}
			return true
		case "verif_assume":
			s.assume(args[0].(*Term))
			e.note("verif_assume in " + f.fn.String())
			return true
		case "verif_implies":
			setRes(c.Implies(args[0].(*Term), args[1].(*Term)))
			return true
		case "verif_forall", "verif_exists":
			lo := args[0].(*Term)
			hi := args[1].(*Term)
			fv := args[2].(*FuncV)
			if lo.Const && hi.Const && sext(hi.C, 64)-sext(lo.C, 64) <= 64 {
				var parts []*Term
				for k := sext(lo.C, 64); k < sext(hi.C, 64); k++ {
					parts = append(parts, e.evalPureCall(s, fv.Fn, []Value{BVConst(uint64(k), 64)}, fv.Free).(*Term))
				}
				if name == "verif_forall" {
					setRes(c.And(parts...))
				} else {
					setRes(c.Or(parts...))
				}
				return true
			}
			snap := e.snapshot(s)
			q := &Quant{forall: name == "verif_forall", lo: lo, hi: hi, kind: quantInt}
			q.body = func(k *Term) *Term {
				r := e.evalPureFn(snap, fv.Fn, []Value{k}, fv.Free)
				return r.(*Term)
			}
			setRes(e.newQuant(s, q))
			return true
		case "verif_old":
			setRes(args[0])
			return true
		}
	}
	switch full {
	case "bytes.Equal":
		aa, aoff, alen := e.srcArr(s, args[0])
		ba, boff, blen := e.srcArr(s, args[1])
		if aa == nil || ba == nil {
			setRes(c.Eq(alen, blen))
			return true
		}
		setRes(e.bytesEq(s, aa.(*Term), aoff, alen, ba.(*Term), boff, blen))
		return true
	case "math.Float64bits", "math.Float32bits", "math.Float64frombits", "math.Float32frombits":
		setRes(args[0])
		return true
	case "math/bits.Mul64":
		// the 128-bit product is left unknown except for what the users in this code base need (no installed solver
		// handles the 128-bit multiplier in time): a zero factor gives zero, and the high word is below either
		// non-zero factor (proved in /verif/lemmas/div64.lean). An over-approximation of the exact product.
		e.note("bits.Mul64: product abstracted to unknowns with hi < x and hi < y for non-zero factors, zero for a zero factor (lemmas/div64.lean, checked by lean on every run)")
		x, y := args[0].(*Term), args[1].(*Term)
		mhi, mlo := c.Fresh("mul64hi", SBV(64)), c.Fresh("mul64lo", SBV(64))
		zero := BVConst(0, 64)
		s.axiom(c.Implies(c.Or(c.Eq(x, zero), c.Eq(y, zero)), c.And(c.Eq(mhi, zero), c.Eq(mlo, zero))))
		s.axiom(c.Implies(c.Not(c.Eq(x, zero)), c.ULt(mhi, x)))
		s.axiom(c.Implies(c.Not(c.Eq(y, zero)), c.ULt(mhi, y)))
		if e.mulPairs == nil {
			e.mulPairs = map[string][2]*Term{}
		}
		e.mulPairs[mhi.S+"|"+mlo.S] = [2]*Term{x, y}
		setRes(TupleV{mhi, mlo})
		return true
	case "math/bits.Div64":
		// exact: (hi:lo) / y as a 128-bit division; panics when y == 0 or the quotient does not fit (y <= hi)
		hi, lo, y := args[0].(*Term), args[1].(*Term), args[2].(*Term)
		e.check(s, "div", c.And(c.Not(c.Eq(y, BVConst(0, 64))), c.ULt(hi, y)), pos, key)
		if xy, ok := e.mulPairs[hi.S+"|"+lo.S]; ok {
			// (hi:lo) is X*Y. The quotient is left unknown except for: X <= y ==> X*Y/y <= Y, and
			// Y <= y ==> X*Y/y <= X (proved in /verif/lemmas/div64.lean; no installed solver derives them from the
			// 128-bit definitions in time). An over-approximation: fewer facts than the exact quotient.
			e.note("bits.Div64 of a bits.Mul64 product: quotient abstracted to an unknown bounded by the arithmetic lemma X <= y ==> X*Y/y <= Y (lemmas/div64.lean, checked by lean on every run)")
			quo, rem := c.Fresh("div64q", SBV(64)), c.Fresh("div64r", SBV(64))
			s.axiom(c.Implies(c.ULe(xy[0], y), c.ULe(quo, xy[1])))
			s.axiom(c.Implies(c.ULe(xy[1], y), c.ULe(quo, xy[0])))
			s.axiom(c.ULt(rem, y))
			setRes(TupleV{quo, rem})
			return true
		}
		n := c.Concat(hi, lo)
		y128 := c.ZExt(y, 128)
		setRes(TupleV{c.Extract(c.UDiv(n, y128), 63, 0), c.Extract(c.URem(n, y128), 63, 0)})
		return true
	case "math/bits.Add64":
		x, y, ci := c.ZExt(args[0].(*Term), 65), c.ZExt(args[1].(*Term), 65), c.ZExt(args[2].(*Term), 65)
		sm := c.Add(c.Add(x, y), ci)
		setRes(TupleV{c.Extract(sm, 63, 0), c.ZExt(c.Extract(sm, 64, 64), 64)})
		return true
	case "hash/crc32.Update":
		// crc32.Update(seed, table, p): an uninterpreted but deterministic function of (seed, bytes of p)
		setRes(e.rangeFn(s, "crc32", []*Term{args[0].(*Term)}, args[2], SBV(32)))
		return true
	case "hash/crc32.Checksum":
		setRes(e.rangeFn(s, "crc32", []*Term{BVConst(0, 32)}, args[0], SBV(32)))
		return true
	case "runtime.KeepAlive":
		return true
	case "(*sync.Mutex).Lock", "(*sync.Mutex).Unlock", "(*sync.RWMutex).Lock", "(*sync.RWMutex).Unlock",
		"(*sync.RWMutex).RLock", "(*sync.RWMutex).RUnlock":
		e.note("mutex operations are no-ops in the sequential model (mutual exclusion is the paper argument of DESIGN.md §1)")
		if s.pure == 0 {
			s.trace = append(s.trace, e.posStr(pos)+": "+full)
		}
		return true
	case "runtime/trace.StartRegion":
		setRes(&PtrV{Nil: False})
		return true
	case "(*runtime/trace.Region).End":
		return true
	case "time.Now":
		setRes(e.freshValS(s, resType, "now"))
		return true
	case "errors.Is":
		// library fact: errors.Is(nil, target) is false for a non-nil target; otherwise unconstrained; modifies nothing
		e.note("library fact: errors.Is(nil, t) == false when t != nil; it modifies nothing")
		r := c.Fresh("errorsIs", SBool)
		if a, ok := args[0].(*IfaceV); ok {
			if b, ok := args[1].(*IfaceV); ok {
				s.axiom(c.Implies(c.And(a.Nil, c.Not(b.Nil)), c.Not(r)))
				s.axiom(c.Implies(c.And(c.Not(a.Nil), c.Not(b.Nil), c.Eq(a.ID, b.ID)), r))
			}
		}
		setRes(r)
		return true
	case "fmt.Errorf", "errors.New":
		// library fact: these constructors never return nil and do not modify their arguments
		e.note("library fact: fmt.Errorf / errors.New return a non-nil error and modify nothing")
		setRes(&IfaceV{Nil: False, ID: c.Fresh("errid", SBV(64))})
		return true
	case "errors.Join":
		// library fact (package documentation): Join returns nil exactly when every element of errs is nil; it
		// modifies nothing. Only a call with a literal argument list (constant length) is given the fact.
		res := &IfaceV{Nil: c.Fresh("joinnil", SBool), ID: c.Fresh("errid", SBV(64))}
		if sv, ok := args[0].(*SliceV); ok && sv.Base != nil && sv.Len.Const && sv.Len.C <= 8 {
			e.note("library fact: errors.Join(e1..en) is nil exactly when every ei is nil; it modifies nothing")
			var all []*Term
			for k := uint64(0); k < sv.Len.C; k++ {
				lv := e.load(s, e.sliceElemRef(sv, BVConst(k, 64)))
				el, ok := lv.(*IfaceV)
				if !ok {
					all = nil
					break
				}
				all = append(all, el.Nil)
			}
			if all != nil {
				s.axiom(c.Eq(res.Nil, c.And(all...)))
			}
		}
		setRes(res)
		return true
	case "fmt.Sprintf", "fmt.Sprint", "fmt.Sprintln":
		e.note("library fact: fmt.Sprint* modify nothing (result string unconstrained)")
		setRes(e.freshValS(s, types.Typ[types.String], "sprintf"))
		return true
	}
	return false
}

func (e *Exec) bytesEq(s *State, a, aoff, alen, b, boff, blen *Term) *Term {
	c := e.c
	if a.S == b.S && aoff.S == boff.S && alen.S == blen.S {
		return True
	}
	eqv := c.Fresh("beq", SBool)
	w := c.Fresh("beqw", SBV(64))
	diff := c.Not(c.Eq(c.Select(a, c.Add(aoff, w)), c.Select(b, c.Add(boff, w))))
	s.axiom(c.Implies(c.Not(eqv), c.Or(c.Not(c.Eq(alen, blen)), c.And(c.ULt(w, alen), diff))))
	s.axiom(c.Implies(eqv, c.Eq(alen, blen)))
	s.addCand(w, false)
	q := &Quant{forall: true, kind: quantIdxRel, always: false, guard: eqv, offs: []*Term{aoff, boff}}
	q.body = func(k *Term) *Term {
		return c.Implies(c.ULt(k, alen), c.Eq(c.Select(a, c.Add(aoff, k)), c.Select(b, c.Add(boff, k))))
	}
	s.quants = append(s.quants, q)
	return eqv
}

// fieldsOnly reports whether a reference path selects fields only (no array elements).
func fieldsOnly(p []PElem) bool {
	for _, pe := range p {
		if pe.Index != nil {
			return false
		}
	}
	return true
}
