package main

// Contract expression evaluation (typed Go AST -> symbolic values), pure evaluation of
// spec functions, quantifier placeholders and their engine-side instantiation.

import (
	"fmt"
	"go/ast"
	"go/constant"
	"go/token"
	"go/types"
	"strings"

	"golang.org/x/tools/go/ssa"
)

type quantKind int

const (
	quantInt    quantKind = iota // forall/exists k in lo..hi over program integers
	quantIdx                     // pointwise array axiom over absolute indices
	quantIdxRel                  // pointwise axiom over indices relative to offsets
)

type Quant struct {
	id     int
	forall bool
	lo, hi *Term
	kind   quantKind
	always bool  // axiom holds unconditionally (frame / copy)
	guard  *Term // axiom holds when guard is true
	body   func(k *Term) *Term
	ph     *Term
	skolem *Term
	arrays []string
	offs   []*Term
	w      int
	skolemDone bool
	pol    int
}

func (q *Quant) doSkolem() bool {
	if q.forall {
		return q.pol >= 0
	}
	return q.pol <= 0
}

func (q *Quant) doInst() bool {
	if q.forall {
		return q.pol <= 0
	}
	return q.pol >= 0
}

// notApplicable is raised by x.(T) in a contract clause when the dynamic type is known to differ: the clause says
// nothing about this call (requires/ensures are skipped, modifies falls back to "everything reachable").
type notApplicable struct{ why string }

func applicable(f func()) (ok bool) {
	defer func() {
		if r := recover(); r != nil {
			if _, na := r.(notApplicable); na {
				ok = false
				return
			}
			panic(r)
		}
	}()
	f()
	return true
}

type oldCtx struct {
	s   *State
	env map[types.Object]Value
}

type astEnv struct {
	e       *Exec
	s       *State
	f       *Frame // frame for local cell lookup (may be nil)
	vars    map[types.Object]Value
	bound   map[types.Object]Value // quantifier-bound variables
	info    *types.Info
	old     *oldCtx
	results []Value
	loop    *loopInfo // the loop whose invariant is being evaluated (range key resolution)
}

func (e *Exec) snapshot(s *State) *State {
	n := &State{heap: s.heap.clone(), candSet: map[string]bool{}, ex: e}
	n.rangeApps = append([]*rangeApp(nil), s.rangeApps...)
	n.pure = 1
	return n
}

func (e *Exec) newQuant(s *State, q *Quant) *Term {
	e.quantN++
	q.id = e.quantN
	q.ph = e.c.Fresh("q", SBool)
	w := 64
	if q.lo != nil {
		w = q.lo.Sort.W
	}
	q.w = w
	q.skolem = e.c.Fresh("sk", SBV(w))
	q.pol = e.pol
	if q.doSkolem() {
		s.addCand(q.skolem, true)
	}
	s.quants = append(s.quants, q)
	if e.sink != nil {
		e.sink.quants = append(e.sink.quants, q)
	}
	return q.ph
}

// ---- clause evaluation entry points

func (e *Exec) evalClause(s *State, f *Frame, cl *Clause, old *oldCtx) *Term {
	if old == nil && f != nil && f.isTop {
		old = &oldCtx{s: e.entryState, env: e.entryVars} // old(e) in an invariant: value at function entry
	}
	return e.evalClauseEnvRes(s, f, cl, e.varsFor(f), old, nil)
}

func (e *Exec) evalClauseVal(s *State, f *Frame, cl *Clause, old *oldCtx) Value {
	if old == nil && f != nil && f.isTop {
		old = &oldCtx{s: e.entryState, env: e.entryVars}
	}
	return e.evalClauseValEnv(s, f, cl, e.varsFor(f), old, nil)
}

func (e *Exec) evalClauseEnv(s *State, f *Frame, cl *Clause, env map[types.Object]Value, old *oldCtx) *Term {
	return e.evalClauseEnvRes(s, f, cl, env, old, nil)
}

func (e *Exec) varsFor(f *Frame) map[types.Object]Value {
	// inside a body (loop invariants, assertions) names denote the current contents of the variables' cells
	return nil
}

func (e *Exec) evalClauseEnvRes(s *State, f *Frame, cl *Clause, env map[types.Object]Value, old *oldCtx, results []Value) *Term {
	v := e.evalClauseValEnv(s, f, cl, env, old, results)
	t, ok := v.(*Term)
	if !ok || t.Sort.K != KBool {
		panic(unsupported("clause is not boolean: " + cl.Text))
	}
	return t
}

func (e *Exec) evalClauseValEnv(s *State, f *Frame, cl *Clause, env map[types.Object]Value, old *oldCtx, results []Value) Value {
	ev := &astEnv{e: e, s: s, f: f, vars: env, info: cl.Info, old: old, results: results, bound: map[types.Object]Value{}, loop: e.curLoop}
	s.pure++
	defer func() { s.pure-- }()
	return ev.eval(cl.Expr)
}

func (e *Exec) evalRef(s *State, f *Frame, x ast.Expr, info *types.Info, env map[types.Object]Value, results []Value) *Ref {
	ev := &astEnv{e: e, s: s, f: f, vars: env, info: info, results: results, bound: map[types.Object]Value{}}
	s.pure++
	defer func() { s.pure-- }()
	return ev.ref(x)
}

// ---- AST evaluation

func (ev *astEnv) lookupVar(obj types.Object) Value {
	if v, ok := ev.bound[obj]; ok {
		return v
	}
	if v, ok := ev.vars[obj]; ok {
		return v
	}
	e := ev.e
	if ev.loop != nil && ev.loop.rangeKey == obj && ev.f != nil {
		// at the header of `for i := range ...` the key denotes the number of completed iterations
		if ev.loop.rangeIdx != nil {
			if pv, ok := ev.f.env[ev.loop.rangeIdx].(*PtrV); ok {
				return e.c.Add(e.load(ev.s, pv.Ref).(*Term), BVConst(1, 64))
			}
		}
		if ev.loop.rangeIter != nil {
			if it, ok := ev.f.env[ev.loop.rangeIter].(*rangeIter); ok && it.obj != nil {
				return e.load(ev.s, &Ref{Obj: it.obj})
			}
		}
	}
	switch o := obj.(type) {
	case *types.Var:
		if o.Parent() == o.Pkg().Scope() {
			// package-level variable
			g := e.w.globalFor(o)
			if g == nil {
				panic(unsupported("unknown global " + o.Name()))
			}
			p := e.globalPtr(g).(*PtrV)
			return e.load(ev.s, p.Ref)
		}
		// local variable cell of the frame
		if ev.f != nil {
			if a := e.w.cellFor(ev.f.fn, o); a != nil {
				if pv, ok := ev.f.env[a].(*PtrV); ok {
					return e.load(ev.s, pv.Ref)
				}
				panic(unsupported("local " + o.Name() + " not yet allocated at this point"))
			}
		}
		// captured variable of a closure: the free variable is a pointer to the enclosing function's cell
		if ev.f != nil {
			for _, fv := range ev.f.fn.FreeVars {
				if fv.Name() == o.Name() {
					if pv, ok := ev.f.env[fv].(*PtrV); ok && pv.Ref != nil {
						return e.load(ev.s, pv.Ref)
					}
				}
			}
		}
		if pv, ok := e.fvByName[o.Name()].(*PtrV); ok && pv.Ref != nil {
			return e.load(ev.s, pv.Ref)
		}
		panic(unsupported("cannot resolve variable " + o.Name()))
	case *types.Const:
		return ev.constOf(o.Val(), o.Type())
	case *types.Nil:
		return nil
	}
	panic(unsupported(fmt.Sprintf("identifier %s (%T)", obj.Name(), obj)))
}

func (ev *astEnv) constOf(val constant.Value, t types.Type) Value {
	e := ev.e
	if b, ok := t.Underlying().(*types.Basic); ok {
		switch {
		case b.Info()&types.IsBoolean != 0:
			return BoolConst(constant.BoolVal(val))
		case b.Info()&types.IsString != 0:
			return e.strConst(constant.StringVal(val))
		case b.Info()&types.IsInteger != 0:
			w := intWidth(b)
			if b.Kind() == types.UntypedInt || b.Kind() == types.UntypedRune {
				w = 64
			}
			iv := constant.ToInt(val)
			if i, ok := constant.Int64Val(iv); ok {
				return BVConst(uint64(i), w)
			}
			u, _ := constant.Uint64Val(iv)
			return BVConst(u, w)
		case b.Info()&types.IsFloat != 0:
			fl, _ := constant.Float64Val(val)
			w := intWidth(b)
			if b.Kind() == types.UntypedFloat {
				w = 64
			}
			return BVConst(floatBits(fl, w), w)
		}
	}
	panic(unsupported("constant of type " + t.String()))
}

func (ev *astEnv) typeOf(x ast.Expr) types.Type {
	if tv, ok := ev.info.Types[x]; ok {
		return tv.Type
	}
	if id, ok := x.(*ast.Ident); ok {
		if o := ev.info.Uses[id]; o != nil {
			return o.Type()
		}
	}
	panic(unsupported("no type for expression"))
}

func (ev *astEnv) eval(x ast.Expr) Value {
	e := ev.e
	c := e.c
	if tv, ok := ev.info.Types[x]; ok && tv.Value != nil {
		return ev.constOf(tv.Value, tv.Type)
	}
	switch n := x.(type) {
	case *ast.ParenExpr:
		return ev.eval(n.X)
	case *ast.Ident:
		if n.Name == "nil" {
			if tv, ok := ev.info.Types[x]; ok && tv.IsNil() {
				if isUntyped(tv.Type) {
					return nil
				}
				return e.zeroVal(tv.Type)
			}
			return nil
		}
		if n.Name == "true" {
			return True
		}
		if n.Name == "false" {
			return False
		}
		obj := ev.info.Uses[n]
		if obj == nil {
			obj = ev.info.Defs[n]
		}
		if obj == nil {
			panic(unsupported("unresolved identifier " + n.Name))
		}
		return ev.lookupVar(obj)
	case *ast.SelectorExpr:
		if sel, ok := ev.info.Selections[n]; ok {
			if sel.Kind() != types.FieldVal {
				panic(unsupported("method value in contract"))
			}
			v := ev.eval(n.X)
			t := ev.typeOf(n.X)
			for _, idx := range sel.Index() {
				v, t = ev.fieldOf(v, t, idx)
			}
			return v
		}
		// qualified identifier pkg.Name
		obj := ev.info.Uses[n.Sel]
		if obj == nil {
			panic(unsupported("unresolved selector " + n.Sel.Name))
		}
		return ev.lookupVar(obj)
	case *ast.StarExpr:
		v := ev.eval(n.X)
		p, ok := v.(*PtrV)
		if !ok || p.Ref == nil {
			panic(unsupported("deref in contract"))
		}
		return e.load(ev.s, p.Ref)
	case *ast.UnaryExpr:
		if n.Op == token.AND {
			r := ev.ref(n.X)
			return &PtrV{Ref: r, Nil: False}
		}
		if n.Op == token.NOT {
			var t *Term
			e.withPol(-e.pol, func() { t = ev.eval(n.X).(*Term) })
			return c.Not(t)
		}
		v := ev.eval(n.X)
		t := v.(*Term)
		switch n.Op {
		case token.NOT:
			return c.Not(t)
		case token.SUB:
			return c.Neg(t)
		case token.XOR:
			return c.BNot(t)
		case token.ADD:
			return t
		}
		panic(unsupported("unary " + n.Op.String()))
	case *ast.BinaryExpr:
		if n.Op == token.LAND {
			return c.And(ev.eval(n.X).(*Term), ev.eval(n.Y).(*Term))
		}
		if n.Op == token.LOR {
			return c.Or(ev.eval(n.X).(*Term), ev.eval(n.Y).(*Term))
		}
		var xv, yv Value
		if n.Op == token.EQL || n.Op == token.NEQ {
			e.withPol(0, func() { xv, yv = ev.eval(n.X), ev.eval(n.Y) })
		} else {
			xv, yv = ev.eval(n.X), ev.eval(n.Y)
		}
		xt, yt := ev.typeOf(n.X), ev.typeOf(n.Y)
		// untyped nil / constants adopt the other side's type
		if isUntyped(xt) {
			xt = yt
			xv = ev.coerce(xv, yt)
		}
		if isUntyped(yt) && n.Op != token.SHL && n.Op != token.SHR {
			yt = xt
			yv = ev.coerce(yv, xt)
		}
		if xv == nil {
			xv = e.zeroVal(yt)
			xt = yt
		}
		if yv == nil {
			yv = e.zeroVal(xt)
		}
		return e.binop(ev.s, n.Op, xv, yv, xt, yt, nil, n.Pos())
	case *ast.IndexExpr:
		// generic instantiation f[T] handled in CallExpr; here: element read
		xv := ev.eval(n.X)
		it := ev.typeOf(n.Index)
		iv := ev.eval(n.Index).(*Term)
		if isUntyped(it) {
			it = types.Typ[types.Int]
		}
		ix := e.toBV64(iv, it)
		switch xx := xv.(type) {
		case *SliceV:
			if xx.Base == nil {
				return e.zeroVal(xx.Elem)
			}
			return e.load(ev.s, e.sliceElemRef(xx, ix))
		case *StringV:
			return c.Select(xx.Arr, c.Add(xx.Off, ix))
		case *PtrV:
			return e.load(ev.s, xx.Ref.extend(PElem{Index: ix}))
		default:
			return e.navigate(xv, []PElem{{Index: ix}}, nil)
		}
	case *ast.SliceExpr:
		xv := ev.eval(n.X)
		get := func(x ast.Expr) *Term {
			if x == nil {
				return nil
			}
			t := ev.typeOf(x)
			if isUntyped(t) {
				t = types.Typ[types.Int]
			}
			return e.toBV64(ev.eval(x).(*Term), t)
		}
		lo, hi := get(n.Low), get(n.High)
		if lo == nil {
			lo = BVConst(0, 64)
		}
		switch xx := xv.(type) {
		case *SliceV:
			if hi == nil {
				hi = xx.Len
			}
			return &SliceV{Base: xx.Base, Off: c.Add(xx.Off, lo), Len: c.Sub(hi, lo), Cap: c.Sub(xx.Cap, lo), Nil: xx.Nil, Elem: xx.Elem}
		case *StringV:
			if hi == nil {
				hi = xx.Len
			}
			return &StringV{Arr: xx.Arr, Off: c.Add(xx.Off, lo), Len: c.Sub(hi, lo)}
		case *PtrV:
			arr := ev.typeOf(n.X).Underlying().(*types.Pointer).Elem().Underlying().(*types.Array)
			if hi == nil {
				hi = BVConst(uint64(arr.Len()), 64)
			}
			return &SliceV{Base: xx.Ref, Off: lo, Len: c.Sub(hi, lo), Cap: c.Sub(BVConst(uint64(arr.Len()), 64), lo), Nil: False, Elem: arr.Elem()}
		case *Term:
			// slicing an addressable array value: make a temporary object
			arr := ev.typeOf(n.X).Underlying().(*types.Array)
			if hi == nil {
				hi = BVConst(uint64(arr.Len()), 64)
			}
			o := e.newObj("tmparr", arr.Elem(), true, ev.s.step)
			ev.s.heap.m[o] = xx
			return &SliceV{Base: &Ref{Obj: o}, Off: lo, Len: c.Sub(hi, lo), Cap: c.Sub(BVConst(uint64(arr.Len()), 64), lo), Nil: False, Elem: arr.Elem()}
		}
		panic(unsupported(fmt.Sprintf("slice expr on %T", xv)))
	case *ast.CallExpr:
		return ev.call(n)
	case *ast.FuncLit:
		panic(unsupported("function literal outside quantifier"))
	case *ast.TypeAssertExpr:
		// x.(T) in a contract: the dynamic value when it is known to have type T
		v := ev.eval(n.X)
		if iv, ok := v.(*IfaceV); ok && iv.Val != nil && iv.Typ != nil && types.Identical(iv.Typ, ev.typeOf(n)) {
			return iv.Val
		}
		if iv, ok := v.(*IfaceV); ok && iv.Typ != nil {
			panic(notApplicable{"dynamic type is " + iv.Typ.String()})
		}
		if iv, ok := v.(*IfaceV); ok && iv.ID != nil && isScalar(ev.typeOf(n)) {
			_, val := e.unboxScalar(iv, ev.typeOf(n))
			return val
		}
		panic(unsupported("type assertion in contract on a value of unknown dynamic type"))
	case *ast.CompositeLit:
		t := ev.typeOf(n)
		if st, ok := t.Underlying().(*types.Struct); ok {
			sv := e.zeroVal(t).(*StructV)
			for i, el := range n.Elts {
				if kv, ok := el.(*ast.KeyValueExpr); ok {
					name := kv.Key.(*ast.Ident).Name
					for j := 0; j < st.NumFields(); j++ {
						if st.Field(j).Name() == name {
							sv.F[j] = ev.eval(kv.Value)
						}
					}
				} else {
					sv.F[i] = ev.eval(el)
				}
			}
			return sv
		}
		if _, ok := t.Underlying().(*types.Array); ok && len(n.Elts) == 0 {
			return e.zeroVal(t)
		}
		panic(unsupported("composite literal of " + t.String()))
	}
	panic(unsupported(fmt.Sprintf("contract expression %T", x)))
}

func isUntyped(t types.Type) bool {
	if b, ok := t.(*types.Basic); ok {
		return b.Info()&types.IsUntyped != 0
	}
	return false
}

func (ev *astEnv) coerce(v Value, t types.Type) Value {
	tm, ok := v.(*Term)
	if !ok || !tm.Const || tm.Sort.K != KBV {
		return v
	}
	if !isScalar(t) {
		return v
	}
	so := scalarSort(t)
	if so.K != KBV {
		return v
	}
	if isFloat(t) {
		return v
	}
	return BVConst(tm.C, so.W)
}

func (ev *astEnv) fieldOf(v Value, t types.Type, idx int) (Value, types.Type) {
	e := ev.e
	if p, ok := t.Underlying().(*types.Pointer); ok {
		pv, ok := v.(*PtrV)
		st := p.Elem().Underlying().(*types.Struct)
		if ok && pv.Ref == nil && pv.Nil != nil && pv.Nil.Const && pv.Nil.B {
			// a field of the nil pointer (e.g. `result0.height` on an error path, guarded by an implication whose
			// antecedent is false there): an arbitrary value; nothing can be proved from or about it
			return e.freshValS(ev.s, st.Field(idx).Type(), "nilfield"), st.Field(idx).Type()
		}
		if !ok || pv.Ref == nil {
			panic(unsupported("field through unknown pointer in contract"))
		}
		return e.load(ev.s, pv.Ref.extend(PElem{Field: idx})), st.Field(idx).Type()
	}
	st := t.Underlying().(*types.Struct)
	sv, ok := v.(*StructV)
	if !ok {
		panic(unsupported(fmt.Sprintf("field of %T", v)))
	}
	return sv.F[idx], st.Field(idx).Type()
}

// ref evaluates an addressable expression to a reference.
func (ev *astEnv) ref(x ast.Expr) *Ref {
	e := ev.e
	switch n := x.(type) {
	case *ast.ParenExpr:
		return ev.ref(n.X)
	case *ast.Ident:
		obj := ev.info.Uses[n]
		if v, ok := obj.(*types.Var); ok {
			if v.Parent() == v.Pkg().Scope() {
				g := e.w.globalFor(v)
				return e.globalPtr(g).(*PtrV).Ref
			}
			if ev.f != nil {
				if a := e.w.cellFor(ev.f.fn, v); a != nil {
					if pv, ok := ev.f.env[a].(*PtrV); ok {
						return pv.Ref
					}
				}
			}
		}
		panic(unsupported("ref of identifier " + n.Name))
	case *ast.SelectorExpr:
		sel, ok := ev.info.Selections[n]
		if !ok {
			obj := ev.info.Uses[n.Sel]
			if v, ok := obj.(*types.Var); ok {
				g := e.w.globalFor(v)
				return e.globalPtr(g).(*PtrV).Ref
			}
			panic(unsupported("ref of qualified identifier"))
		}
		t := ev.typeOf(n.X)
		var r *Ref
		if _, isPtr := t.Underlying().(*types.Pointer); isPtr {
			pv := ev.eval(n.X).(*PtrV)
			r = pv.Ref
			t = t.Underlying().(*types.Pointer).Elem()
		} else {
			r = ev.ref(n.X)
		}
		for i, idx := range sel.Index() {
			if i > 0 {
				if p, ok := t.Underlying().(*types.Pointer); ok {
					pv := e.load(ev.s, r).(*PtrV)
					r = pv.Ref
					t = p.Elem()
				}
			}
			r = r.extend(PElem{Field: idx})
			t = t.Underlying().(*types.Struct).Field(idx).Type()
		}
		return r
	case *ast.StarExpr:
		pv := ev.eval(n.X).(*PtrV)
		return pv.Ref
	case *ast.IndexExpr:
		xv := ev.eval(n.X)
		it := ev.typeOf(n.Index)
		if isUntyped(it) {
			it = types.Typ[types.Int]
		}
		ix := e.toBV64(ev.eval(n.Index).(*Term), it)
		switch xx := xv.(type) {
		case *SliceV:
			return e.sliceElemRef(xx, ix)
		case *PtrV:
			return xx.Ref.extend(PElem{Index: ix})
		}
		return ev.ref(n.X).extend(PElem{Index: ix})
	}
	panic(unsupported(fmt.Sprintf("ref of %T", x)))
}

func (ev *astEnv) call(n *ast.CallExpr) Value {
	e := ev.e
	c := e.c
	// conversion?
	if tv, ok := ev.info.Types[n.Fun]; ok && tv.IsType() {
		v := ev.eval(n.Args[0])
		from := ev.typeOf(n.Args[0])
		if isUntyped(from) {
			return ev.coerce(v, tv.Type)
		}
		return e.convert(ev.s, v, from, tv.Type, nil)
	}
	fun := n.Fun
	if ix, ok := fun.(*ast.IndexExpr); ok {
		fun = ix.X // generic instantiation
	}
	if p, ok := fun.(*ast.ParenExpr); ok {
		fun = p.X
	}
	var obj types.Object
	var recvExpr ast.Expr
	switch f := fun.(type) {
	case *ast.Ident:
		obj = ev.info.Uses[f]
	case *ast.SelectorExpr:
		if sel, ok := ev.info.Selections[f]; ok {
			obj = sel.Obj()
			recvExpr = f.X
		} else {
			obj = ev.info.Uses[f.Sel]
		}
	}
	if obj == nil {
		panic(unsupported("call target in contract"))
	}
	if b, ok := obj.(*types.Builtin); ok {
		switch b.Name() {
		case "len", "cap":
			v := ev.eval(n.Args[0])
			switch x := v.(type) {
			case *SliceV:
				if b.Name() == "len" {
					return x.Len
				}
				return x.Cap
			case *StringV:
				return x.Len
			case *OpaqueV:
				if b.Name() == "len" {
					return ev.e.mapLen(ev.s, x)
				}
			}
			t := ev.typeOf(n.Args[0]).Underlying()
			if p, ok := t.(*types.Pointer); ok {
				t = p.Elem().Underlying()
			}
			if a, ok := t.(*types.Array); ok {
				return BVConst(uint64(a.Len()), 64)
			}
			panic(unsupported("len in contract"))
		case "min", "max":
			t := ev.typeOf(n.Args[0])
			r := ev.eval(n.Args[0]).(*Term)
			for _, a := range n.Args[1:] {
				bv := ev.coerce(ev.eval(a), t).(*Term)
				var lt *Term
				if isSigned(t) {
					lt = c.SLt(bv, r)
				} else {
					lt = c.ULt(bv, r)
				}
				if b.Name() == "min" {
					r = c.Ite(lt, bv, r)
				} else {
					r = c.Ite(lt, r, bv)
				}
			}
			return r
		}
		panic(unsupported("builtin " + b.Name() + " in contract"))
	}
	fobj, ok := obj.(*types.Func)
	if !ok {
		panic(unsupported("call of non-function in contract"))
	}
	switch fobj.Name() {
	case "verif_old":
		if ev.old == nil {
			// outside a two-state context old(e) = e
			return ev.eval(n.Args[0])
		}
		sub := &astEnv{e: e, s: ev.old.s, f: nil, vars: ev.old.env, info: ev.info, bound: ev.bound}
		ev.old.s.pure++
		defer func() { ev.old.s.pure-- }()
		return sub.eval(n.Args[0])
	case "verif_res":
		k := 0
		if len(n.Args) > 0 {
			if tv, ok := ev.info.Types[n.Args[0]]; ok && tv.Value != nil {
				i, _ := constant.Int64Val(tv.Value)
				k = int(i)
			}
		}
		if k >= len(ev.results) {
			panic(unsupported("result index out of range in contract"))
		}
		return ev.results[k]
	case "verif_loopold":
		// value at the moment the loop whose invariant is being evaluated was entered
		if ev.loop == nil || ev.f == nil || ev.f.loopEntry == nil || ev.f.loopEntry[ev.loop] == nil {
			panic(unsupported("loopold outside a loop invariant"))
		}
		snap := ev.f.loopEntry[ev.loop]
		sub := &astEnv{e: e, s: snap, f: ev.f, vars: ev.vars, info: ev.info, bound: ev.bound, loop: ev.loop, old: ev.old}
		snap.pure++
		defer func() { snap.pure-- }()
		return sub.eval(n.Args[0])
	case "verif_arg":
		k := 0
		if len(n.Args) > 0 {
			if tv, ok := ev.info.Types[n.Args[0]]; ok && tv.Value != nil {
				i, _ := constant.Int64Val(tv.Value)
				k = int(i)
			}
		}
		if k >= len(e.callArgs) {
			panic(unsupported("argN outside a call-site assertion or out of range"))
		}
		return e.callArgs[k]
	case "verif_sameslice":
		a, ok1 := ev.eval(n.Args[0]).(*SliceV)
		b, ok2 := ev.eval(n.Args[1]).(*SliceV)
		if !ok1 || !ok2 {
			panic(unsupported("sameslice of non-slices"))
		}
		if a.Base == nil || b.Base == nil {
			return c.And(a.Nil, b.Nil)
		}
		if a.Base.Obj != b.Base.Obj || len(a.Base.Path) != len(b.Base.Path) {
			return False
		}
		return c.And(c.Eq(a.Off, b.Off), c.Eq(a.Len, b.Len))
	case "verif_samemap":
		a, ok1 := ev.eval(n.Args[0]).(*OpaqueV)
		b, ok2 := ev.eval(n.Args[1]).(*OpaqueV)
		if !ok1 || !ok2 {
			panic(unsupported("samemap of non-maps"))
		}
		return c.Or(c.And(a.Nil, b.Nil), c.And(c.Not(a.Nil), c.Not(b.Nil), c.Eq(a.ID, b.ID)))
	case "verif_rangeidx":
		// number of completed iterations of the range loop whose invariant is being evaluated
		if ev.loop != nil && ev.loop.rangeIdx != nil && ev.f != nil {
			if pv, ok := ev.f.env[ev.loop.rangeIdx].(*PtrV); ok {
				return c.Add(e.load(ev.s, pv.Ref).(*Term), BVConst(1, 64))
			}
		}
		if ev.loop != nil && ev.loop.rangeIter != nil && ev.f != nil {
			// range over a string: the byte position of the next rune
			if it, ok := ev.f.env[ev.loop.rangeIter].(*rangeIter); ok && it.obj != nil {
				return e.load(ev.s, &Ref{Obj: it.obj})
			}
		}
		panic(unsupported("rangeidx outside the invariant of a range loop"))
	case "verif_implies":
		var a *Term
		e.withPol(-e.pol, func() { a = ev.eval(n.Args[0]).(*Term) })
		return c.Implies(a, ev.eval(n.Args[1]).(*Term))
	case "verif_forall", "verif_exists":
		lo := ev.eval(n.Args[0]).(*Term)
		hi := ev.eval(n.Args[1]).(*Term)
		lo, hi = c.SExt(lo, 64), c.SExt(hi, 64)
		fl, ok := n.Args[2].(*ast.FuncLit)
		if !ok {
			panic(unsupported("quantifier body must be a function literal"))
		}
		kobj := ev.info.Defs[fl.Type.Params.List[0].Names[0]]
		ret, ok := fl.Body.List[0].(*ast.ReturnStmt)
		if !ok || len(fl.Body.List) != 1 {
			panic(unsupported("quantifier body must be a single return"))
		}
		if lo.Const && hi.Const && sext(hi.C, 64)-sext(lo.C, 64) <= 64 {
			// small constant range: expand
			var parts []*Term
			for k := sext(lo.C, 64); k < sext(hi.C, 64); k++ {
				sub := &astEnv{e: e, s: ev.s, f: ev.f, vars: ev.vars, info: ev.info, old: ev.old, results: ev.results, bound: map[types.Object]Value{}, loop: ev.loop}
				for bk, bv := range ev.bound {
					sub.bound[bk] = bv
				}
				sub.bound[kobj] = BVConst(uint64(k), 64)
				parts = append(parts, sub.eval(ret.Results[0]).(*Term))
			}
			if fobj.Name() == "verif_forall" {
				return c.And(parts...)
			}
			return c.Or(parts...)
		}
		snap := e.snapshot(ev.s)
		// carry over quantifier lists so nested quantifiers get registered on the live state
		live := ev.s
		outer := ev
		q := &Quant{forall: fobj.Name() == "verif_forall", lo: lo, hi: hi, kind: quantInt}
		q.body = func(k *Term) *Term {
			sub := &astEnv{e: e, s: snap, f: outer.f, vars: outer.vars, info: outer.info, old: outer.old, results: outer.results, bound: map[types.Object]Value{}, loop: outer.loop}
			for bk, bv := range outer.bound {
				sub.bound[bk] = bv
			}
			sub.bound[kobj] = k
			// local cells must be read from the snapshot heap: frame env pointers are stable
			_ = live
			r := sub.eval(ret.Results[0]).(*Term)
			return r
		}
		return e.newQuant(ev.s, q)
	}
	// spec function / ordinary pure function: evaluate its SSA body
	fn := e.w.prog.FuncValue(fobj)
	if fn == nil {
		panic(unsupported("no SSA function for " + fobj.FullName()))
	}
	var args []Value
	if recvExpr != nil {
		rv := ev.eval(recvExpr)
		// auto address/deref of receiver
		sig := fobj.Type().(*types.Signature)
		_, wantPtr := sig.Recv().Type().Underlying().(*types.Pointer)
		_, havePtr := ev.typeOf(recvExpr).Underlying().(*types.Pointer)
		if wantPtr && !havePtr {
			rv = &PtrV{Ref: ev.ref(recvExpr), Nil: False}
		} else if !wantPtr && havePtr {
			rv = e.load(ev.s, rv.(*PtrV).Ref)
		}
		args = append(args, rv)
	}
	sig := fobj.Type().(*types.Signature)
	for i, a := range n.Args {
		v := ev.eval(a)
		var pt types.Type
		if i < sig.Params().Len() {
			pt = sig.Params().At(i).Type()
		}
		at := ev.typeOf(a)
		if pt != nil && isUntyped(at) {
			v = ev.coerce(v, pt)
		}
		if v == nil && pt != nil {
			v = e.zeroVal(pt)
		}
		if pt != nil {
			if _, isIface := pt.Underlying().(*types.Interface); isIface {
				if _, already := v.(*IfaceV); !already {
					v = &IfaceV{Nil: False, Typ: at, Val: v, ID: e.ifaceID(v, at)}
				}
			}
		}
		args = append(args, v)
	}
	if fn.TypeParams().Len() > 0 {
		panic(unsupported("generic function call in contract: " + fobj.Name()))
	}
	{
		var res Value
		got := false
		if e.intrinsic(ev.s, nil, fn.String(), fn, args, n.Pos(), nil, func(v Value) { res = v; got = true }, fn.Signature.Results()) && got {
			return res
		}
	}
	return e.evalPureCall(ev.s, fn, args, nil)
}

// ---- pure evaluation of SSA functions (all paths, merged by ite)

func (e *Exec) evalPureFn(snap *State, fn *ssa.Function, args []Value, free []Value) Value {
	return e.evalPureCall(snap, fn, args, free)
}

func (e *Exec) evalPureCall(s *State, fn *ssa.Function, args []Value, free []Value) Value {
	if fn.Blocks == nil {
		panic(unsupported("pure call to function without body: " + fn.String()))
	}
	if con := e.w.contractFor(fn); con != nil && con.Opaque {
		// opaque pure spec function: uninterpreted
		return e.pureResult(s, con, args, fn.Signature.Results().At(0).Type(), fnKey(fn))
	}
	sub := &State{heap: s.heap.clone(), candSet: map[string]bool{}, pure: 1, ex: e}
	sub.rangeApps = append([]*rangeApp(nil), s.rangeApps...)
	nApps := len(sub.rangeApps)
	sub.pcBase = 0
	var results []pureResult
	e.pureDepth++
	if e.pureDepth > 12 {
		panic(unsupported("pure evaluation too deep (recursive spec function?) at " + fn.String()))
	}
	nf := &Frame{id: -e.pureDepth, fn: fn, block: fn.Blocks[0], env: map[ssa.Value]Value{}, pureRet: &results}
	for i, p := range fn.Params {
		nf.env[p] = args[i]
	}
	for i, fv := range fn.FreeVars {
		if i < len(free) {
			nf.env[fv] = free[i]
		}
	}
	sub.frames = []*Frame{nf}
	saved := e.work
	e.work = nil
	work := []*State{sub}
	var finished []*State
	for len(work) > 0 {
		st := work[len(work)-1]
		work = work[:len(work)-1]
		e.work = nil
		e.runPath(st)
		finished = append(finished, st)
		work = append(work, e.work...)
		if len(finished) > 256 {
			panic(unsupported("too many paths in pure evaluation of " + fn.String()))
		}
	}
	e.work = saved
	e.pureDepth--
	for _, st := range finished {
		if len(st.rangeApps) > nApps {
			s.rangeApps = append(s.rangeApps, st.rangeApps[nApps:]...)
		}
		s.quants = append(s.quants, st.quants...)
		s.axioms = append(s.axioms, st.axioms...)
		for _, cd := range st.cands {
			s.addCand(cd.t, cd.signed)
		}
	}
	if len(results) == 0 {
		// the spec function has no value for these arguments (every path panics, e.g. an index into the nil result of
		// an error path, guarded by an implication whose antecedent is false there): an arbitrary value
		e.note("spec function without a value for some arguments (arbitrary there): " + fn.String())
		return e.freshValS(s, fn.Signature.Results().At(0).Type(), "novalue")
	}
	return e.mergeResults(results)
}

func (e *Exec) mergeResults(rs []pureResult) Value {
	v := rs[len(rs)-1].val
	for i := len(rs) - 2; i >= 0; i-- {
		cond := e.c.And(rs[i].pc...)
		v = e.iteVal(cond, rs[i].val, v)
	}
	return v
}

func (e *Exec) iteVal(cond *Term, a, b Value) Value {
	switch x := a.(type) {
	case *Term:
		return e.c.Ite(cond, x, b.(*Term))
	case *StructV:
		y := b.(*StructV)
		n := &StructV{F: make([]Value, len(x.F))}
		for i := range x.F {
			n.F[i] = e.iteVal(cond, x.F[i], y.F[i])
		}
		return n
	case TupleV:
		y := b.(TupleV)
		n := make(TupleV, len(x))
		for i := range x {
			n[i] = e.iteVal(cond, x[i], y[i])
		}
		return n
	case *SliceV:
		y := b.(*SliceV)
		if x.Base == nil && y.Base == nil || (x.Base != nil && y.Base != nil && x.Base.Obj == y.Base.Obj && len(x.Base.Path) == len(y.Base.Path)) {
			base := x.Base
			return &SliceV{Base: base, Off: e.c.Ite(cond, x.Off, y.Off), Len: e.c.Ite(cond, x.Len, y.Len), Cap: e.c.Ite(cond, x.Cap, y.Cap), Nil: e.c.Ite(cond, x.Nil, y.Nil), Elem: x.Elem}
		}
	case *IfaceV:
		y := b.(*IfaceV)
		return &IfaceV{Nil: e.c.Ite(cond, x.Nil, y.Nil), ID: e.c.Ite(cond, x.ID, y.ID)}
	case *StringV:
		y := b.(*StringV)
		return &StringV{Arr: e.c.Ite(cond, x.Arr, y.Arr), Off: e.c.Ite(cond, x.Off, y.Off), Len: e.c.Ite(cond, x.Len, y.Len)}
	case *PtrV:
		y := b.(*PtrV)
		if x.Ref != nil && y.Ref != nil && x.Ref.Obj == y.Ref.Obj && len(x.Ref.Path) == 0 && len(y.Ref.Path) == 0 {
			return &PtrV{Ref: x.Ref, Nil: e.c.Ite(cond, x.Nil, y.Nil)}
		}
	}
	panic(unsupported(fmt.Sprintf("cannot merge values of kind %T across paths", a)))
}

// ---- query construction with quantifier instantiation

func (e *Exec) render(asserts []string) string {
	var b strings.Builder
	b.WriteString("(set-option :produce-models true)\n(set-logic ALL)\n(declare-sort U 0)\n")
	b.WriteString(e.c.Prelude(asserts))
	for _, a := range asserts {
		b.WriteString("(assert ")
		b.WriteString(a)
		b.WriteString(")\n")
	}
	b.WriteString("(check-sat)\n")
	return b.String()
}

// buildQuery returns the full query and, when quantifier instantiation added anything, a light
// query without the instantiation axioms (fewer hypotheses: unsat of the light query is sound too).
func (e *Exec) buildQuery(s *State, extra []*Term) (string, string) {
	c := e.c
	var asserts []string
	add := func(t *Term) {
		if t.Const && t.B {
			return
		}
		asserts = append(asserts, t.S)
	}
	for _, t := range e.typeAxioms {
		add(t)
	}
	for _, t := range s.axioms {
		add(t)
	}
	for i, t := range s.pc {
		if e.uses != nil && i < len(s.pcTag) && strings.HasPrefix(s.pcTag[i], "inv") {
			keep := false
			for _, u := range e.uses {
				if s.pcTag[i] == fmt.Sprintf("inv%d", u) {
					keep = true
				}
			}
			if !keep {
				continue // hypothesis hidden on request of the contract ("uses"): fewer hypotheses is sound
			}
		}
		add(t)
	}
	for _, t := range extra {
		add(t)
	}
	// congruence axioms of uninterpreted byte-range functions whose results occur in this query
	if len(e.rangeAxioms) > 0 {
		used := c.Used(asserts)
		for _, ra := range e.rangeAxioms {
			if used[ra.a] && used[ra.b] {
				asserts = append(asserts, ra.ax.S)
			}
		}
	}
	done := map[string]bool{}
	nAx := 0
	sink := &querySink{seen: map[string]bool{}}
	prevSink := e.sink
	e.sink = sink
	defer func() { e.sink = prevSink }()
	var cands []*Term
	candSeen := map[string]bool{}
	addC := func(cd cand) {
		t := cd.t
		if t.Sort.W < 64 {
			if cd.signed {
				t = c.SExt(t, 64)
			} else {
				t = c.ZExt(t, 64)
			}
		}
		if !candSeen[t.S] {
			candSeen[t.S] = true
			cands = append(cands, t)
		}
	}
	for _, cd := range s.cands {
		addC(cd)
	}
	quants := append([]*Quant(nil), s.quants...)
	nLight := len(asserts)
	lightAsserts := append([]string(nil), asserts...)
	for round := 0; round < 8; round++ {
		progress := false
		selIdx := e.selectIndices(asserts)
		nq := len(quants)
		usedSyms := c.Used(asserts)
		for qi := 0; qi < nq; qi++ {
			q := quants[qi]
			if q.kind == quantInt && q.ph != nil && !usedSyms[q.ph.S] {
				continue // the quantified fact does not occur in this query: nothing to instantiate
			}
			inst := func(t *Term, tag string) {
				k := fmt.Sprintf("%d|%s|%s", q.id, tag, t.S)
				if q.id == 0 {
					k = fmt.Sprintf("%p|%s|%s", q, tag, t.S)
				}
				if done[k] {
					return
				}
				done[k] = true
				var ax *Term
				switch q.kind {
				case quantInt:
					in := c.And(c.SLe(q.lo, t), c.SLt(t, q.hi))
					var b *Term
					e.withPol(q.pol, func() { b = q.body(t) })
					if q.forall {
						ax = c.Implies(q.ph, c.Implies(in, b))
					} else {
						ax = c.Implies(c.And(in, b), q.ph)
					}
				default:
					b := q.body(t)
					if q.always {
						ax = b
					} else {
						ax = c.Implies(q.guard, b)
					}
				}
				if !(ax.Const && ax.B) {
					asserts = append(asserts, ax.S)
					nAx++
					progress = true
				}
			}
			switch q.kind {
			case quantInt:
				sk := q.skolem
				ksk := fmt.Sprintf("%d|sk", q.id)
				if !done[ksk] && q.doSkolem() {
					done[ksk] = true
					in := c.And(c.SLe(q.lo, sk), c.SLt(sk, q.hi))
					var b *Term
					e.withPol(q.pol, func() { b = q.body(sk) })
					var ax *Term
					if q.forall {
						ax = c.Implies(c.Not(q.ph), c.And(in, c.Not(b)))
					} else {
						ax = c.Implies(q.ph, c.And(in, b))
					}
					asserts = append(asserts, ax.S)
					progress = true
				}
				if q.doInst() {
					for _, t := range cands {
						tt := t
						if tt.Sort.W != q.w {
							continue
						}
						inst(tt, "c")
					}
					inst(q.lo, "lo")
					inst(c.Sub(q.hi, BVConst(1, q.w)), "hi")
				}
			case quantIdx:
				for si, t := range selIdx {
					if len(q.arrays) > 0 {
						// an axiom about the array q.arrays[0]: only indices at which that array (or an array
						// derived from it) is read matter
						rel := false
						for _, a := range q.arrays {
							if si < len(e.selRoots) && e.selRoots[si][a] {
								rel = true
							}
						}
						if !rel {
							continue
						}
					}
					inst(t, "i")
				}
			case quantIdxRel:
				for _, t := range cands {
					if t.Sort.W == 64 {
						inst(t, "c")
					}
				}
				for _, t := range selIdx {
					for _, off := range q.offs {
						inst(c.Sub(t, off), "r")
					}
				}
			}
			if nAx > 4000 {
				break
			}
		}
		// quantifiers, axioms and candidates introduced while instantiating (nested evaluation)
		if len(sink.quants) > 0 || len(sink.axioms) > 0 || len(sink.cands) > 0 {
			progress = true
		}
		quants = append(quants, sink.quants...)
		sink.quants = nil
		for _, t := range sink.axioms {
			add(t)
		}
		sink.axioms = nil
		for _, cd := range sink.cands {
			addC(cd)
		}
		sink.cands = nil
		if !progress || nAx > 4000 {
			break
		}
	}
	full := e.render(asserts)
	if len(asserts) == nLight {
		return full, ""
	}
	return full, e.render(lightAsserts)
}

// selectIndices finds index terms of select applications in the assertions and the definitions they use.
// selectIndices finds index terms of select applications in the assertions and the definitions they use.
// For every index it also records the root symbols of the array expressions it is applied to.
func (e *Exec) selectIndices(asserts []string) []*Term {
	c := e.c
	seen := map[string]int{}
	var out []*Term
	e.selRoots = e.selRoots[:0]
	visitedDefs := map[string]bool{}
	rootCache := map[string]map[string]bool{}
	rootsOf := func(arr string) map[string]bool {
		if r, ok := rootCache[arr]; ok {
			return r
		}
		r := c.Used([]string{arr})
		rootCache[arr] = r
		return r
	}
	var scan func(s string)
	scan = func(s string) {
		for i := 0; i+8 < len(s); i++ {
			if strings.HasPrefix(s[i:], "(select ") {
				j := i + 8
				a0 := j
				j = skipSexp(s, j)
				arr := s[a0:j]
				for j < len(s) && s[j] == ' ' {
					j++
				}
				k := skipSexp(s, j)
				idx := s[j:k]
				n, ok := seen[idx]
				if !ok {
					n = len(out)
					seen[idx] = n
					out = append(out, &Term{S: idx, Sort: SBV(64)})
					e.selRoots = append(e.selRoots, map[string]bool{})
				}
				for sym := range rootsOf(arr) {
					e.selRoots[n][sym] = true
				}
			}
		}
		for _, sym := range symbolsOf(s) {
			if visitedDefs[sym] {
				continue
			}
			visitedDefs[sym] = true
			c.mu.Lock()
			d, ok := c.decls[sym]
			c.mu.Unlock()
			if ok && strings.HasPrefix(d, "(define-fun") {
				scan(d)
			}
		}
	}
	for _, a := range asserts {
		scan(a)
	}
	if len(out) > 400 {
		out = out[:400]
		e.selRoots = e.selRoots[:400]
	}
	return out
}

func skipSexp(s string, i int) int {
	if i >= len(s) {
		return i
	}
	if s[i] == '(' {
		depth := 0
		for ; i < len(s); i++ {
			if s[i] == '(' {
				depth++
			} else if s[i] == ')' {
				depth--
				if depth == 0 {
					return i + 1
				}
			}
		}
		return i
	}
	for i < len(s) && s[i] != ' ' && s[i] != ')' {
		i++
	}
	return i
}
