#!/bin/bash
# usage: confirm_all.sh <PROP>  — confirms /tmp/seed-out/<PROP>/m* in /tmp/seedwt-<PROP> (sequentially), prints RESULT lines
P=$1
for M in /tmp/seed-out/$P/m*; do
  [ -f $M/patch.diff ] || continue
  DEST=$(python3 -c "import json;print(json.load(open('$M/meta.json'))['demo_dest'])")
  # existing tests: the packages the patch touches plus the demo's package
  PK=$(grep '^+++ b/' $M/patch.diff | sed 's|+++ b/go/||; s|/[^/]*$||' | sort -u | sed 's|^|./|; s|$|/|' | tr '\n' ' ')
  /verif/tools/confirm_seed.sh /tmp/seedwt-$P $M $DEST $PK
done
