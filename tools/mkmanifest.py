#!/usr/bin/env python3
"""Regenerates /verif/MANIFEST.json from claims.json (claimed properties) and DESIGN.md's not-applicable table."""
import json, re, subprocess, os
root = os.path.dirname(os.path.dirname(os.path.abspath(__file__)))
design = open(os.path.join(root, 'DESIGN.md')).read()
na = {}
for m in re.finditer(r'^\| (C\d\d) \| (.*?) \|$', design, re.M):
    na[m.group(1)] = m.group(2)
claims = json.load(open(os.path.join(root, 'claims.json')))
ids = [json.loads(l)['id'] for l in open(os.path.join(root, 'properties.jsonl'))]
log = subprocess.run(['git', '-C', '/repo', 'log', '--format=%H %s'], capture_output=True, text=True).stdout.splitlines()
hooks = [l.split()[0] for l in log if l.split(' ', 1)[1].startswith('verif:')]
checks, napp = [], []
for i in ids:
    if i in claims:
        c = claims[i]
        checks.append({
            "property_id": i,
            "quick_cmd": "./check %s --tier quick" % i,
            "thorough_cmd": "./check %s --tier thorough" % i,
            "evidence_file": "evidence/%s.json" % i,
            "replay_cmd_template": "./check --replay {path}",
            "engine": "govc",
            "level_claimed": {"category": "proof", "text": c["text"], "design_ref": c.get("design_ref", "DESIGN.md §3 " + i)},
            "level_note": c["note"],
            "technique": c.get("technique", "contract-based deductive verification: weakest-precondition style VCs generated from go/ssa of the real functions, discharged by z3/cvc5"),
        })
    else:
        reason = na.get(i) or claims.get("_unclaimed", {}).get(i) or "contracts designed (DESIGN.md §3) but not discharged by the engine in the time available"
        napp.append({"property_id": i, "reason": reason})
man = {
    "version": 1,
    "setup_cmd": "./setup.sh",
    "hooks": {
        "guard": "verif",
        "enable": "go build -tags verif (verif_spec.go / verif_contracts.go / verif_lemmas.go carry //go:build verif; with the tag off they are invisible)",
        "baseline_off_cmd": "for m in $(cat /w/out/gomods.txt); do MF=$(cd /repo/$m && . /w/out/goenv.sh && gomodflag); (cd /repo/$m && go test $MF -json -vet=off -count=1 -timeout 25m ./...); done",
        "source_commits": list(reversed(hooks)),
        "add_only": True,
    },
    "engines": [{"name": "govc", "path": "engine", "serves_properties": [c["property_id"] for c in checks],
                 "kind_free_text": "self-written deductive verifier for Go: symbolic execution of go/ssa (NaiveForm) of the real functions against //@ contracts kept in build-tagged files in /repo; loops cut by invariants; calls by callee contract; obligations discharged by z3 4.8.12 / z3 5.1.0 / cvc5 1.0 (raced)"}],
    "checks": checks,
    "not_applicable": napp,
    "notes": "exit codes: 0 = all claimed obligations discharged (KNOWN-FINDING lines possible); 1 = VIOLATION; 2 = check itself broken (stale contract, loader failure, vacuous precondition, solver disagreement). See DESIGN.md.",
}
json.dump(man, open(os.path.join(root, 'MANIFEST.json'), 'w'), indent=1)
print("checks:", [c["property_id"] for c in checks])
