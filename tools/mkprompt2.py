#!/usr/bin/env python3
"""usage: mkprompt2.py <PROP> <outdir-root> : writes <outdir-root>/prompt-<PROP>.txt for an independent seeding sub-agent
(property text + the one-line descriptions of changes already collected; nothing else from /verif)."""
import sys, json, glob, os
prop, root = sys.argv[1], sys.argv[2]
rec = [json.loads(l) for l in open('/verif/properties.jsonl') if l.strip() and json.loads(l)['id'] == prop][0]
tmpl = open('/tmp/seed-out2/prompt-C15.txt').read()
head, rest = tmpl.split('## The property', 1)
_, tail = rest.split('## Changes already collected', 1)
_, tail = tail.split('## Your workspace', 1)
have = []
for d in sorted(glob.glob('/verif/seeded/%s-*' % prop)):
    m = json.load(open(d + '/meta.json'))
    if m.get('breaks'): have.append('- ' + m['breaks'].strip())
out = head + '## The property (this is all the context you get about what is being checked)\n' + json.dumps(rec, indent=1) + '\n\n'
out += '## Changes already collected by others (do NOT repeat these or close variants of them; pick OTHER functions and mechanisms that the property depends on)\n' + '\n'.join(have) + '\n\n\n'
out += '## Your workspace' + tail.replace('C15', prop).replace('/tmp/seed-out2', root)
os.makedirs(root, exist_ok=True)
open('%s/prompt-%s.txt' % (root, prop), 'w').write(out)
print('wrote', '%s/prompt-%s.txt' % (root, prop), len(have), 'collected')
