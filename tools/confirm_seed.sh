#!/bin/bash
# usage: confirm_seed.sh <worktree> <seed-out-dir>/m<k> <demo-dest-relative-to-repo-root> <pkg patterns...>
# Confirms, in a scratch worktree: (1) existing package tests pass with the patch, (2) demo fails with the patch, (3) demo passes without it.
WT=$1; M=$2; DEST=$3; shift 3
export GOFLAGS=-mod=mod GOPROXY=off GOSUMDB=off GOTOOLCHAIN=local
export PATH=/root/go/pkg/mod/golang.org/toolchain@v0.0.1-go1.26.2.linux-amd64/bin:$PATH
cd $WT && git checkout -q -- . && git clean -fdq
git apply $M/patch.diff || { echo "RESULT $M apply-failed"; exit 1; }
DEMO=$(ls $M/*_test.go | head -1)
RUN=$(grep -o 'func Test[A-Za-z0-9_]*' $DEMO | sed 's/func //' | paste -sd'|')
cd $WT/go
go test $* -count=1 -vet=off -timeout 60m > $M/confirm_existing.log 2>&1; e1=$?
cp $DEMO $WT/$DEST
go test ./$(dirname ${DEST#go/})/ -count=1 -vet=off -run "^($RUN)\$" > $M/confirm_demo_with.log 2>&1; e2=$?
cd $WT && git checkout -q -- . && cd go
go test ./$(dirname ${DEST#go/})/ -count=1 -vet=off -run "^($RUN)\$" > $M/confirm_demo_without.log 2>&1; e3=$?
cd $WT && git checkout -q -- . && git clean -fdq
echo "RESULT $M existing_with_patch=$e1 demo_with_patch=$e2 demo_without_patch=$e3 (want 0, nonzero, 0)"
