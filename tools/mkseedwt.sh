#!/bin/bash
# usage: mkseedwt.sh <dir>
# Creates a scratch git worktree of /repo at HEAD for an independent seeding sub-agent. The verif_* contract files
# (build tag verif) are removed and that removal is committed on the detached HEAD of the worktree, so the agent sees
# nothing of the verification machinery and `git diff` in the worktree yields a patch that applies to /repo.
set -e
D=$1
git -C /repo worktree add --detach -q "$D" HEAD
cd "$D"
find go -name 'verif_*.go' -print0 | xargs -0 git rm -q --
git -c user.name=builder -c user.email=builder@example.invalid commit -qm "scratch: base for seeding"
echo "worktree $D ready at $(git rev-parse --short HEAD)"
