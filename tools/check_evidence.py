#!/usr/bin/env python3
"""Validates every committed evidence file against the schema and the proof-level rule discharged == obligations."""
import json, sys, glob, os
sys.path.insert(0, '/opt/veriftools/pyvenv/lib/python3.11/site-packages')
import jsonschema
root = os.path.dirname(os.path.dirname(os.path.abspath(__file__)))
sch = json.load(open('/root/.vp/EVIDENCE.schema.json'))
man = json.load(open(os.path.join(root, 'MANIFEST.json')))
bad = 0
for c in man['checks']:
    p = os.path.join(root, c['evidence_file'])
    try:
        d = json.load(open(p)); jsonschema.validate(d, sch)
        cov = d['coverage']
        ok = cov['obligations'] == cov['discharged'] and cov['obligations'] > 0
        print(c['property_id'], 'obl', cov['obligations'], 'dis', cov['discharged'], 'wall %.0fs' % d['wall_s'], 'OK' if ok else 'MISMATCH')
        bad += not ok
    except Exception as e:
        print(c['property_id'], 'INVALID', str(e)[:200]); bad += 1
sys.exit(1 if bad else 0)
