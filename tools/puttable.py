#!/usr/bin/env python3
"""Replaces the per-property table of DESIGN.md section 8.2 by the output of tools/mktable.py."""
import subprocess, re
p = '/verif/DESIGN.md'
s = open(p).read()
tab = subprocess.run(['python3', '/verif/tools/mktable.py'], capture_output=True, text=True).stdout.strip()
i = s.index('| id | functions under contract |')
j = i
lines = s[i:].split('\n')
n = 0
for l in lines:
    if l.startswith('|'): n += len(l) + 1
    else: break
s = s[:i] + tab + '\n' + s[i + n:]
open(p, 'w').write(s)
print('table replaced:', len(tab.splitlines()), 'lines')
