#!/bin/bash
# usage: confirm_seed_sets.sh <worktree> <seed-dir> <demo-dest> <pkg>
# For packages whose suite does not fully pass in the sandbox (tests needing external programs): confirms that the set
# of PASSING tests of <pkg> without the patch is still passing with the patch, and the demo fails with / passes without.
WT=$1; M=$2; DEST=$3; PKG=$4
export GOFLAGS=-mod=mod GOPROXY=off
cd $WT && git checkout -q -- . && git clean -fdq
pass() { python3 -c "
import json,sys
ok=set()
for l in open(sys.argv[1]):
    try: e=json.loads(l)
    except: continue
    if e.get('Action')=='pass' and e.get('Test'): ok.add(e['Test'])
print('\n'.join(sorted(ok)))" $1; }
(cd $WT/go && go test $PKG -json -count=1 -vet=off > $M/base.json 2>/dev/null); pass $M/base.json > $M/base_pass.txt
git apply $M/patch.diff || { echo "RESULT $M apply-failed"; exit 1; }
(cd $WT/go && go test $PKG -json -count=1 -vet=off > $M/with.json 2>/dev/null); pass $M/with.json > $M/with_pass.txt
LOST=$(comm -23 $M/base_pass.txt $M/with_pass.txt | wc -l)
DEMO=$(ls $M/*_test.go | head -1)
RUN=$(grep -o 'func Test[A-Za-z0-9_]*' $DEMO | sed 's/func //' | paste -sd'|')
cp $DEMO $WT/$DEST
(cd $WT/go && go test $PKG -count=1 -vet=off -run "^($RUN)\$" > $M/confirm_demo_with.log 2>&1); e2=$?
cd $WT && git checkout -q -- . && (cd go && go test $PKG -count=1 -vet=off -run "^($RUN)\$" > $M/confirm_demo_without.log 2>&1); e3=$?
cd $WT && git checkout -q -- . && git clean -fdq
echo "RESULT $M existing_with_patch=$LOST demo_with_patch=$e2 demo_without_patch=$e3 (want 0, nonzero, 0) [existing = number of tests that passed without the patch and do not pass with it; baseline passing: $(wc -l < $M/base_pass.txt)]"
