#!/usr/bin/env python3
"""usage: import_seeds2.py <PROP> <confirm-log>...: copies confirmed second-round seeds /tmp/seed-out2/<PROP>/m<k> into
/verif/seeded/<PROP>-r2-m<k>/ (a directory m<k>-rebased, if present, supplies the patch rebased onto later fix: commits)"""
import sys, os, json, shutil, re, glob
import os as _os
ROOT = _os.environ.get('SEED_ROOT', '/tmp/seed-out2')
prop = sys.argv[1]
log = ''.join(open(f).read() for f in sys.argv[2:])
for m in sorted(glob.glob('%s/%s/m[0-9]' % (ROOT, prop))):
    k = os.path.basename(m)
    rs = re.findall(r'RESULT %s existing_with_patch=(\d+) demo_with_patch=(\d+) demo_without_patch=(\d+)' % re.escape(m), log)
    if not any(r[0] == '0' and r[1] != '0' and r[2] == '0' for r in rs):
        print('NOT confirmed:', m, rs); continue
    d = '/verif/seeded/%s-r2-%s' % (prop, k)
    os.makedirs(d, exist_ok=True)
    meta = json.load(open(m + '/meta.json'))
    note = None
    if os.path.exists(m + '-rebased/patch.diff'):
        shutil.copy(m + '/patch.diff', d + '/patch.orig.diff')
        shutil.copy(m + '-rebased/patch.diff', d + '/patch.diff')
        note = 'patch.diff is the same edit rebased onto a later fix: commit in the same function; patch.orig.diff is what was confirmed'
    else:
        shutil.copy(m + '/patch.diff', d)
    for f in glob.glob(m + '/*_test.go'): shutil.copy(f, d)
    out = {"property": prop, "round": 2, "breaks": meta.get('breaks'), "needs_to_manifest": meta.get('needs_to_manifest'), "demo": meta.get('demo_dest'),
           "confirmed": "tools/confirm_seed.sh in a scratch worktree of /repo: existing tests of the touched packages with the patch: pass; demo with the patch: FAIL; demo without the patch: pass",
           "packages_tested_by_author": meta.get('packages_tested'),
           "origin": "independent sub-agent given only the property text, the list of changes already collected, and a scratch worktree (verif_* files removed)"}
    if note: out['note'] = note
    json.dump(out, open(d + '/meta.json', 'w'), indent=1)
    print('imported', d)
