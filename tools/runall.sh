#!/bin/sh
# Re-runs every claimed check (quick tier) sequentially against /repo, rewriting the evidence files.
cd "$(dirname "$0")/.."
for p in $(python3 -c "import json;print(' '.join(c['property_id'] for c in json.load(open('MANIFEST.json'))['checks']))"); do
  ./check $p --tier quick 2>&1 | tail -1
done
