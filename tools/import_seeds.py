#!/usr/bin/env python3
"""usage: import_seeds.py <PROP> <confirm-log>: copies confirmed /tmp/seed-out/<PROP>/m* into /verif/seeded/<PROP>-m<k>/"""
import sys, os, json, shutil, re, glob
prop, log = sys.argv[1], open(sys.argv[2]).read()
for m in sorted(glob.glob('/tmp/seed-out/%s/m*' % prop)):
    k = os.path.basename(m)
    r = re.search(r'RESULT %s existing_with_patch=(\d+) demo_with_patch=(\d+) demo_without_patch=(\d+)' % re.escape(m), log)
    if not r or not (r.group(1) == '0' and r.group(2) != '0' and r.group(3) == '0'):
        print('NOT confirmed:', m, r and r.groups()); continue
    d = '/verif/seeded/%s-%s' % (prop, k)
    os.makedirs(d, exist_ok=True)
    meta = json.load(open(m + '/meta.json'))
    shutil.copy(m + '/patch.diff', d)
    for f in glob.glob(m + '/*_test.go'): shutil.copy(f, d)
    out = {"property": prop, "breaks": meta.get('breaks'), "needs_to_manifest": meta.get('needs_to_manifest'), "demo": meta.get('demo_dest'),
           "confirmed": "tools/confirm_seed.sh in a scratch worktree of /repo HEAD: existing tests of the touched packages with the patch: pass; demo with the patch: FAIL; demo without the patch: pass",
           "packages_tested_by_author": meta.get('packages_tested'),
           "origin": "independent sub-agent given only the property text and a scratch worktree (verif_* files removed)"}
    json.dump(out, open(d + '/meta.json', 'w'), indent=1)
    print('imported', d)
