#!/usr/bin/env python3
"""Must-fail / must-pass corpus runner.

Each selftest/<PROP>/<name>.diff is a unified diff against /repo (paths a/go/..., b/go/...). A leading line
'# expect: violation' (default) or '# expect: pass' (harmless refactor) states what the check must do.
The patched files are produced in a scratch directory and handed to govc through go/packages' Overlay, so /repo
is never touched. Usage: tools/selftest.py [PROP ...] [-j N]
"""
import os, sys, re, subprocess, tempfile, shutil, json, concurrent.futures, time
root = os.path.dirname(os.path.dirname(os.path.abspath(__file__)))
env = dict(os.environ)
env['PATH'] = '/opt/veriftools/go1.26.8/bin:' + env['PATH']
env.update(GOTOOLCHAIN='local', GOFLAGS='-mod=mod', GOPROXY='off', GOSUMDB='off')

def claimed():
    return set(c['property_id'] for c in json.load(open(os.path.join(root, 'MANIFEST.json')))['checks'])

def run_one(prop, path, name=None):
    name = name or os.path.basename(path)[:-5]
    text = open(path).read()
    expect = 'violation'
    m = re.search(r'^# expect: (\w+)', text, re.M)
    if m: expect = m.group(1)
    files = sorted(set(re.findall(r'^\+\+\+ b/(\S+)', text, re.M)))
    tmp = tempfile.mkdtemp(prefix='verif-selftest-', dir='/var/tmp')
    try:
        for f in files:
            os.makedirs(os.path.dirname(os.path.join(tmp, f)), exist_ok=True)
            if os.path.exists(os.path.join('/repo', f)):
                shutil.copy(os.path.join('/repo', f), os.path.join(tmp, f))
        r = subprocess.run(['patch', '-p1', '-s', '-d', tmp], input=text, text=True, capture_output=True)
        if r.returncode != 0:
            return dict(prop=prop, name=name, expect=expect, got='patch-failed', ok=False, detail=r.stdout + r.stderr)
        args = [os.path.join(root, 'bin/govc'), 'check', prop, '--tier', 'quick', '--evidence-dir', tmp]
        for f in files:
            args += ['--overlay', '/repo/%s=%s' % (f, os.path.join(tmp, f))]
        t0 = time.time()
        r = subprocess.run(args, capture_output=True, text=True, env=env, cwd=root)
        out = r.stdout + r.stderr
        viol = [l for l in out.splitlines() if l.startswith('VIOLATION')]
        got = {0: 'pass', 1: 'violation'}.get(r.returncode, 'broken(%d)' % r.returncode)
        obl = sorted(set(re.findall(r'obligation=(\S+)', '\n'.join(viol))))
        return dict(prop=prop, name=name, expect=expect, got=got, ok=(got == expect), secs=round(time.time() - t0, 1),
                    obligations=obl[:6], with_input=sum('no-failing-input-found' not in l for l in viol),
                    detail='' if got == expect else out[-1500:])
    finally:
        shutil.rmtree(tmp, ignore_errors=True)

def main():
    args = sys.argv[1:]
    if args and args[0] == '--try':
        # tools/selftest.py --try PROP patch.diff [PROP patch.diff ...]
        rest = args[1:]
        for i in range(0, len(rest), 2):
            r = run_one(rest[i], rest[i + 1], rest[i + 1])
            print('%-4s %-60s got=%-10s %s' % (r['prop'], r['name'][-60:], r['got'], ','.join(r.get('obligations', []))[:200]), flush=True)
            if r['got'].startswith('broken'): print(r['detail'])
        return
    summary_into = None
    if '--summary-into' in args:
        i = args.index('--summary-into'); summary_into = args[i + 1]; del args[i:i + 2]
    seeded_only = False
    if '--seeded-only' in args:
        # only the independently seeded changes and the fix canaries (canary-*.diff); earlier results for the own
        # mutants are kept in results.json (each entry carries the time it was obtained)
        seeded_only = True; args.remove('--seeded-only')
    j = 3
    if '-j' in args:
        i = args.index('-j'); j = int(args[i + 1]); del args[i:i + 2]
    props = args or sorted(os.listdir(os.path.join(root, 'selftest')))
    jobs = []
    for p in props:
        d = os.path.join(root, 'selftest', p)
        if not os.path.isdir(d): continue
        for f in sorted(os.listdir(d)):
            if f.endswith('.diff') and (not seeded_only or f.startswith('canary-')): jobs.append((p, os.path.join(d, f)))
    res = []
    with concurrent.futures.ThreadPoolExecutor(j) as ex:
        for r in ex.map(lambda a: run_one(*a), jobs):
            res.append(r)
            print('%-4s %-44s expect=%-9s got=%-10s %s %s' % (r['prop'], r['name'], r['expect'], r['got'], 'OK ' if r['ok'] else 'MISMATCH', ','.join(r.get('obligations', []))[:150]), flush=True)
            if not r['ok']: print(r['detail'])
    res_seeded = []
    sd = os.path.join(root, 'seeded')
    sjobs = []
    if os.path.isdir(sd):
        for d in sorted(os.listdir(sd)):
            mp = os.path.join(sd, d, 'meta.json')
            if not os.path.exists(mp): continue
            meta = json.load(open(mp))
            if args and meta['property'] not in args: continue
            if meta['property'] not in claimed(): 
                print('%-4s %-44s property not claimed: skipped' % (meta['property'], 'seeded/' + d)); continue
            sjobs.append((meta['property'], os.path.join(sd, d, 'patch.diff'), 'seeded/' + d))
    with concurrent.futures.ThreadPoolExecutor(j) as ex:
        for r in ex.map(lambda a: run_one(a[0], a[1], a[2]), sjobs):
            res.append(r)
            print('%-4s %-44s expect=%-9s got=%-10s %s %s' % (r['prop'], r['name'], r['expect'], r['got'], 'OK ' if r['ok'] else 'MISSED', ','.join(r.get('obligations', []))[:150]), flush=True)
    bad = [r for r in res if not r['ok']]
    print('%d mutants, %d as expected, %d mismatches' % (len(res), len(res) - len(bad), len(bad)))
    for r in res: r.pop('detail', None)
    stamp = time.strftime('%Y-%m-%dT%H:%M:%SZ', time.gmtime())
    for r in res: r['at'] = stamp
    # merge with earlier results: a case that was not run this time keeps its last result (and its time stamp)
    rp = os.path.join(root, 'selftest', 'results.json')
    merged = {}
    if os.path.exists(rp):
        try:
            for r in json.load(open(rp)): merged[(r['prop'], r['name'])] = r
        except Exception: pass
    for r in res: merged[(r['prop'], r['name'])] = r
    json.dump(sorted(merged.values(), key=lambda r: (r['prop'], r['name'])), open(rp, 'w'), indent=1)
    if summary_into:
        ev = json.load(open(os.path.join(root, summary_into)))
        ev['coverage']['must_fail_corpus'] = {
            'rule': 'property-breaking changes (own overlay mutants under selftest/, independently seeded and confirmed changes under seeded/) must make the check report a violation; harmless refactors must still verify',
            'cases': len(res), 'as_expected': len(res) - len(bad),
            'not_as_expected': [r['name'] for r in bad],
            'detected': [{'name': r['name'], 'obligations': r.get('obligations', [])[:3]} for r in res if r['ok'] and r['expect'] == 'violation'],
        }
        json.dump(ev, open(os.path.join(root, summary_into), 'w'), indent=1)
    sys.exit(1 if bad else 0)
main()
