#!/usr/bin/env python3
"""Prints the per-property table of DESIGN.md section 8.2 from the evidence files, the seed directories and
selftest/results.json (run after tools/runall.sh and a complete tools/selftest.py)."""
import json, os, glob
root = '/verif'
res = {}
rp = os.path.join(root, 'selftest', 'results.json')
if os.path.exists(rp):
    for r in json.load(open(rp)): res[(r['prop'], r['name'])] = r
claims = json.load(open(os.path.join(root, 'claims.json')))
print('| id | functions under contract | obligations | seeds caught (round 1 + later rounds) | own mutants as expected |')
print('|---|---|---|---|---|')
for p in sorted(claims):
    ev = json.load(open('%s/evidence/%s.json' % (root, p)))
    c = ev['coverage']
    seeds = sorted(d for d in os.listdir(root + '/seeded') if d.startswith(p + '-'))
    caught = sum(1 for s in seeds if res.get((p, 'seeded/' + s), {}).get('got') == 'violation')
    known = sum(1 for s in seeds if (p, 'seeded/' + s) in res)
    own = [r for (pp, n), r in res.items() if pp == p and not n.startswith('seeded/')]
    ok = sum(1 for r in own if r['ok'])
    print('| %s | %d | %d | %d/%d%s | %s |' % (p, len(c['functions_under_contract']), c['obligations'], caught, len(seeds),
          '' if known == len(seeds) else ' (%d not run)' % (len(seeds) - known), ('%d/%d' % (ok, len(own))) if own else '—'))
