#!/usr/bin/env python3
"""Prints the per-property table of DESIGN.md section 8.2 from the evidence files, the seed directories and
selftest/results.json (run after tools/runall.sh and a complete tools/selftest.py)."""
import json, os, glob
root = '/verif'
res = {}
rp = os.path.join(root, 'selftest', 'results.json')
if os.path.exists(rp):
    for r in json.load(open(rp)): res[(r['prop'], r['name'])] = r
claims = json.load(open(os.path.join(root, 'claims.json')))
notes = {
 'C01': 'table index, batched lookups (complete for every request/entry), journal and archive lookups, generational layer; **genuine defect** (8.3 no. 13)',
 'C02': 'manifest / journal / store compare-and-swap protocol, commit shortcut, true-up root',
 'C03': 'journal records, durability ghost state, replay loop incl. recovery state, data-loss check',
 'C04': 'index validation closure, byte accounting, read-only guards; one known finding',
 'C05': 'manifest replacement under the lock (Update, UpdateGCGen, LockManifest, checkers), grace prune; C05-m1 not detected (needs a map model)',
 'C06': 'table writer/reader contracts, archive stream writer and walker; byte-level layout lemma attempted and dropped',
 'C07': '**genuine defect** (8.3 no. 5)',
 'C09': 'walker contracts generated from a field table; **genuine defect** (8.3 no. 4)',
 'C10': 'parsers and accessors never panic; five `fix:` commits (8.3 no. 1-3, 12, 14), one known finding',
 'C12': 'thin: splitter decisions content-only, builder reset, merge re-insertion, canonical root',
 'C15': 'codec layout / compare / round-trip lemmas, DATETIME order, builder reset, comparator visits every field',
 'C16': 'adaptive inline/out-of-band encoding, collated refill step, JSON chunker forces only the final boundary',
 'C18': 'heights, closure construction skeleton, closure read back as a set',
 'C20': 'edit closures as compare-and-swap; update loop',
 'C21': 'combined commit + working set',
 'C27': 'thin: multiplicity cell, writer steps',
 'C28': 'thin: lock discipline + sequential core; C28-r2-m2/-m3 not detected (need a concurrent schedule)',
 'C38': 'thin: longest-match selections; C38-m1, C38-m3 not detected',
 'C39': 'thin: guard structure of Unseal (incl. path binding) and of the file handler',
 'C40': 'thin: value encoders against format documentation; **three genuine defects** (8.3 no. 9-11)',
 'C41': 'journal lock, read-only guards',
 'C42': 'blob ranges (incl. git normalizeRange), limiting reader, conditional writes, records sub-object',
 'C44': 'ref names, ancestor specs, NewCommitSpec dataflow; C44-r2-m3 not detected (regexp)',
}
print('| id | functions under contract | obligations | seeds caught (round 1 + later rounds) | own mutants as expected | notes |')
print('|---|---|---|---|---|---|')
for p in sorted(claims):
    ev = json.load(open('%s/evidence/%s.json' % (root, p)))
    c = ev['coverage']
    seeds = sorted(d for d in os.listdir(root + '/seeded') if d.startswith(p + '-'))
    caught = sum(1 for s in seeds if res.get((p, 'seeded/' + s), {}).get('got') == 'violation')
    known = sum(1 for s in seeds if (p, 'seeded/' + s) in res)
    files = sorted(f[:-5] for f in os.listdir('%s/selftest/%s' % (root, p)) if f.endswith('.diff')) if os.path.isdir('%s/selftest/%s' % (root, p)) else []
    own = [res[(p, f)] for f in files if (p, f) in res]
    ok = sum(1 for r in own if r['ok'])
    print('| %s | %d | %d | %d/%d%s | %s | %s |' % (p, len(c['functions_under_contract']), c['obligations'], caught, len(seeds),
          '' if known == len(seeds) else ' (%d not run)' % (len(seeds) - known), (('%d/%d' % (ok, len(own))) + ('' if len(own) == len(files) else ' (+%d without a recorded run)' % (len(files) - len(own)))) if files else '—', notes.get(p, '')))
