# sourced by setup.sh and check: offline Go toolchain for the engine and the loader
export PATH=/opt/veriftools/go1.26.8/bin:$PATH
export GOTOOLCHAIN=local GOFLAGS=-mod=mod GOPROXY=off GOSUMDB=off
