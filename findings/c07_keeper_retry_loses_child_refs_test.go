package nbs

import (
	"context"
	"errors"
	"testing"
	"time"

	"github.com/stretchr/testify/require"

	"github.com/dolthub/dolt/go/store/chunks"
	"github.com/dolthub/dolt/go/store/constants"
	"github.com/dolthub/dolt/go/store/hash"
)

// Property C07: a write that would commit a dangling reference is rejected.
//
// History: a GC is in progress and its keeper blocks the Put of a chunk X that was just added to the memtable. The GC
// then ends WITHOUT swapping tables (e.g. it failed or was a no-op), so the memtable survives. The blocked Put
// retries, finds X already in the memtable (chunkExists) and returns success. X references a chunk that was never
// written. Committing X as the root must be rejected with ErrDanglingRef.
func TestVerifC07KeeperRetryLosesChildRefs(t *testing.T) {
	ctx := context.Background()
	st, err := NewLocalStore(ctx, constants.FormatDefaultString, t.TempDir(), 1<<20, NewUnlimitedMemQuotaProvider(), false)
	require.NoError(t, err)
	defer st.Close()

	neverWritten := hash.Of([]byte("c07: this child is never written"))
	x := chunks.NewChunk([]byte("c07: chunk with a dangling child"))
	getAddrs := func(c chunks.Chunk) chunks.InsertAddrsCb {
		return func(_ context.Context, addrs hash.HashSet, _ chunks.PendingRefExists) error {
			if c.Hash() == x.Hash() {
				addrs.Insert(neverWritten)
			}
			return nil
		}
	}

	keeperCalled := make(chan struct{}, 1)
	require.NoError(t, st.BeginGC(ctx, func(h hash.Hash) bool {
		select {
		case keeperCalled <- struct{}{}:
		default:
		}
		return true
	}, chunks.GCMode_Full))

	putDone := make(chan error, 1)
	go func() { putDone <- st.Put(ctx, x, getAddrs) }()
	<-keeperCalled
	// once we get the lock the Put is parked in waitForGC
	st.mu.Lock()
	st.mu.Unlock()
	// the GC ends without swapping tables: the memtable (holding X) survives
	st.EndGC(chunks.GCMode_Full)
	select {
	case err := <-putDone:
		require.NoError(t, err)
	case <-time.After(5 * time.Second):
		t.Fatal("Put did not return after EndGC")
	}

	last, err := st.Root(ctx)
	require.NoError(t, err)
	ok, cerr := st.Commit(ctx, x.Hash(), last)
	if cerr == nil && ok {
		has, herr := st.Has(ctx, neverWritten)
		require.NoError(t, herr)
		require.True(t, has, "the root %s was committed although it references %s, which is not in the store", x.Hash(), neverWritten)
	} else {
		require.True(t, errors.Is(cerr, ErrDanglingRef), "expected ErrDanglingRef, got %v", cerr)
		root, rerr := st.Root(ctx)
		require.NoError(t, rerr)
		require.Equal(t, last, root)
	}
}
