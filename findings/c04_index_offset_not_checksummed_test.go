package nbs

import (
	"bytes"
	"context"
	"math/rand"
	"os"
	"path/filepath"
	"testing"

	"github.com/stretchr/testify/require"

	dherrors "github.com/dolthub/dolt/go/libraries/utils/errors"
	"github.com/dolthub/dolt/go/store/chunks"
	"github.com/dolthub/dolt/go/store/hash"
)

// Property C04: the journal index is only an accelerator — for ANY content of journal.idx, opening the database shows
// the same set of readable chunks as opening it with no index at all.
//
// Known finding: the batch checksum of the index covers only the 16 address bytes of each lookup, not its journal
// offset and length. One flipped bit in a lookup's offset passes every validation (checksum, contiguity, root hash at
// the batch end), is admitted into the range index, and makes that chunk unreadable, while the same journal opened
// without the index serves it. This test documents the behaviour: it PASSES while the defect is present (it asserts
// the divergence) and must be inverted when the checksum is extended.
func TestVerifC04IndexOffsetNotChecksummed(t *testing.T) {
	ctx := context.Background()
	dir := t.TempDir()
	path := filepath.Join(dir, "journal.log")
	j, err := createJournalWriter(ctx, path)
	require.NoError(t, err)
	j.maxNovel = 4
	_, err = j.bootstrapJournal(ctx, true, nil, nil)
	require.NoError(t, err)
	rng := rand.New(rand.NewSource(4))
	data := map[hash.Hash]CompressedChunk{}
	var last hash.Hash
	for i := 0; i < 8; i++ {
		buf := make([]byte, 64)
		rng.Read(buf)
		c := chunks.NewChunk(buf)
		cc := ChunkToCompressedChunk(c)
		require.NoError(t, j.writeCompressedChunk(ctx, dherrors.FatalBehaviorError, cc))
		data[c.Hash()] = cc
		last = c.Hash()
	}
	require.NoError(t, j.commitRootHash(ctx, dherrors.FatalBehaviorError, last))
	require.NoError(t, j.Close())
	journal, err := os.ReadFile(path)
	require.NoError(t, err)
	idx, err := os.ReadFile(filepath.Join(dir, journalIndexFileName))
	require.NoError(t, err)
	require.NotEmpty(t, idx)

	open := func(idx []byte, canWrite bool) (unreadable int) {
		d := t.TempDir()
		p := filepath.Join(d, "journal.log")
		require.NoError(t, os.WriteFile(p, journal, 0666))
		if idx != nil {
			require.NoError(t, os.WriteFile(filepath.Join(d, journalIndexFileName), idx, 0666))
		}
		w, ok, err := openJournalWriter(ctx, p)
		require.NoError(t, err)
		require.True(t, ok)
		var warned bool
		_, err = w.bootstrapJournal(ctx, canWrite, nil, func(error) { warned = true })
		require.NoError(t, err)
		require.False(t, warned, "the corrupted index was accepted without a warning")
		for h, cc := range data {
			act, err := w.getCompressedChunk(h)
			if err != nil || !bytes.Equal(act.FullCompressedChunk, cc.FullCompressedChunk) {
				unreadable++
			}
		}
		require.NoError(t, w.Close())
		return unreadable
	}

	// first record of the index: tag(1) | addr16(16) | offset(8) | length(4); flip one bit of the offset
	bad := append([]byte{}, idx...)
	require.Equal(t, indexRecChunk, bad[0])
	bad[1+16+7] ^= 0x10

	for _, canWrite := range []bool{false, true} {
		require.Equal(t, 0, open(nil, canWrite), "without an index every chunk is readable")
		require.Equal(t, 0, open(idx, canWrite), "with the intact index every chunk is readable")
		require.Equal(t, 1, open(bad, canWrite), "KNOWN FINDING C04: a flipped offset bit is accepted and one chunk becomes unreadable")
	}
}
