package nbs

// Demonstration for the fixed finding "readJournalRecord panics on a CRC-valid record with a truncated field".
// Place as go/store/nbs/verif_finding_rjr_test.go (or inject with go test -overlay).

import "testing"

func TestVerifFindingReadJournalRecordTruncated(t *testing.T) {
	buf := make([]byte, 13)
	writeUint32(buf, 13)
	buf[4] = byte(addrJournalRecTag)
	writeUint32(buf[9:], crc(buf[:9]))
	if err := validateJournalRecord(buf); err != nil {
		t.Fatalf("record should pass validation (length and CRC are consistent): %v", err)
	}
	defer func() {
		if r := recover(); r != nil {
			t.Fatalf("readJournalRecord panicked on a validated record: %v", r)
		}
	}()
	if _, err := readJournalRecord(buf); err == nil {
		t.Fatalf("expected an error for a truncated address field")
	}
}
