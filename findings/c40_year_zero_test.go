package binlogreplication

import (
	"context"
	"fmt"
	"testing"

	gmstypes "github.com/dolthub/go-mysql-server/sql/types"
	"github.com/dolthub/vitess/go/mysql"
	querypb "github.com/dolthub/vitess/go/vt/proto/query"
	"github.com/stretchr/testify/require"
)

// Property C40: YEAR values must decode to the stored year. MySQL stores YEAR as one byte: 0 for the year 0000,
// otherwise year-1900.
func TestVerifC40YearZero(t *testing.T) {
	s := yearSerializer{}
	for _, y := range []int16{0, 1901, 2024, 2155} {
		t.Run(fmt.Sprintf("%04d", y), func(t *testing.T) {
			data, err := s.serialize(context.Background(), gmstypes.Year, y, nil)
			require.NoError(t, err)
			typ, meta := s.metadata(nil, gmstypes.Year)
			v, _, err := mysql.CellValue(data, 0, typ, meta, querypb.Type_YEAR)
			require.NoError(t, err)
			require.Equal(t, fmt.Sprintf("%04d", y), fmt.Sprintf("%s", v.Raw()))
		})
	}
}
