// Demonstration of a genuine defect found while putting GenerationalNBS.HasMany under contract (property C01).
//
// A GenerationalNBS without a ghost generation (this is how go/store/spec/spec.go opens a database) answers
// HasMany with "nothing is absent" whenever the new generation misses at least one address, even for addresses
// that are in neither generation: Has and Get report them absent, HasMany reports them present.
//
// Copy to go/store/nbs/ and run: go test ./store/nbs -run TestVerifFindingGenerationalHasManyNilGhost -vet=off
// It fails on the tree before the repair and passes after it.

package nbs

import (
	"context"
	"testing"

	"github.com/stretchr/testify/require"

	"github.com/dolthub/dolt/go/store/chunks"
	"github.com/dolthub/dolt/go/store/hash"
	"github.com/dolthub/dolt/go/store/types"
)

func TestVerifFindingGenerationalHasManyNilGhost(t *testing.T) {
	ctx := context.Background()
	nbf := types.Format_DOLT.VersionString()
	oldGen, err := NewLocalStore(ctx, nbf, t.TempDir(), 1<<16, NewUnlimitedMemQuotaProvider(), false)
	require.NoError(t, err)
	newGen, err := NewLocalStore(ctx, nbf, t.TempDir(), 1<<16, NewUnlimitedMemQuotaProvider(), false)
	require.NoError(t, err)

	cs := NewGenerationalCS(oldGen, newGen, nil) // no ghost generation, as in store/spec/spec.go
	defer cs.Close()

	noAddrs := func(chunks.Chunk) chunks.InsertAddrsCb {
		return func(context.Context, hash.HashSet, chunks.PendingRefExists) error { return nil }
	}
	written := chunks.NewChunk([]byte("written to the new generation"))
	require.NoError(t, cs.Put(ctx, written, noAddrs))
	neverWritten := chunks.NewChunk([]byte("never written anywhere")).Hash()

	has, err := cs.Has(ctx, neverWritten)
	require.NoError(t, err)
	require.False(t, has, "Has must report a never-written address absent")
	c, err := cs.Get(ctx, neverWritten)
	require.NoError(t, err)
	require.True(t, c.IsEmpty(), "Get must return nothing for a never-written address")

	absent, err := cs.HasMany(ctx, hash.NewHashSet(written.Hash(), neverWritten))
	require.NoError(t, err)
	require.True(t, absent.Has(neverWritten),
		"HasMany reports the never-written address %s as present; Has and Get report it absent", neverWritten)
	require.False(t, absent.Has(written.Hash()))
	require.Equal(t, 1, len(absent))
}
