package nbs

import (
	"context"
	"fmt"
	"testing"

	"github.com/stretchr/testify/require"
)

// Property C10: corrupted storage files are reported, never misread (and never crash the process).
// The byte-span table of an archive index is read without any validation. Two entries that are not in ascending
// order (one corrupted byte) make the span length spanIndex[id]-spanIndex[id-1] wrap around to an enormous value,
// and readByteSpan panics in make() instead of returning an error.
func TestVerifC10ArchiveSpanIndexNotMonotone(t *testing.T) {
	ar := archiveReader{
		indexReader: &inMemoryArchiveIndexReader{spanIndex: []uint64{0, 100, 50}},
	}
	var err error
	var panicked interface{}
	func() {
		defer func() { panicked = recover() }()
		_, _, err = ar.getRawByRef(context.Background(), 0, 2, &Stats{})
	}()
	require.Nil(t, panicked, fmt.Sprintf("reading a chunk through a corrupted span index panicked: %v", panicked))
	require.Error(t, err)
}
