package nbs

// Demonstrations for two fixed findings (C10): a manifest whose root field is not a valid hash made
// parseV5Manifest / parseV4Manifest panic (hash.Parse), and NewCompressedChunk panicked on a buffer
// shorter than its 4-byte checksum. Inject with go test -overlay as go/store/nbs/verif_finding_c10_test.go.

import (
	"strings"
	"testing"

	"github.com/dolthub/dolt/go/store/hash"
)

func TestVerifFindingManifestBadRoot(t *testing.T) {
	good := hash.Hash{}.String()
	for _, text := range []string{
		"nbf:" + good + ":" + "not-a-hash" + ":" + good, // v5 layout: nbfVers:lock:root:gcGen
		"nbf:" + good + ":" + "zz",                       // v4 layout: nbfVers:lock:root
	} {
		func() {
			defer func() {
				if r := recover(); r != nil {
					t.Errorf("manifest parser panicked on a corrupt root field: %v", r)
				}
			}()
			var err error
			if strings.Count(text, ":") == 3 {
				_, err = parseV5Manifest(strings.NewReader(text))
			} else {
				_, err = parseV4Manifest(strings.NewReader(text))
			}
			if err == nil {
				t.Errorf("expected an error for a corrupt root field")
			}
		}()
	}
}

func TestVerifFindingShortCompressedChunk(t *testing.T) {
	for n := 0; n < 4; n++ {
		func() {
			defer func() {
				if r := recover(); r != nil {
					t.Errorf("NewCompressedChunk panicked on a %d-byte buffer: %v", n, r)
				}
			}()
			if _, err := NewCompressedChunk(hash.Hash{}, make([]byte, n)); err == nil {
				t.Errorf("expected an error for a %d-byte buffer", n)
			}
		}()
	}
}
