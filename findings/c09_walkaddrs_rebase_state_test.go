// Finding C09 (reproduction; copy into /repo/go/store/datas and run `go test -run TestVerifC09 ./store/datas`).
// A working set that records an in-progress rebase, or a merge with a pre-merge HEAD commit, carries addresses that
// the loader (datas.serialWorkingSetHead.HeadWorkingSet -> RebaseState.OntoCommit / PreRebaseWorkingAddr,
// MergeState.PreMergeHeadCommit) dereferences, but types.SerialMessage.WalkAddrs did not report them, so garbage
// collection, pull and fsck could drop or miss the chunks behind them.
package datas

import (
	"testing"

	"github.com/dolthub/dolt/go/store/hash"
	"github.com/dolthub/dolt/go/store/types"
)

func TestVerifC09WalkAddrsRebaseAndPreMergeHead(t *testing.T) {
	mk := func(b byte) hash.Hash {
		var h hash.Hash
		for i := range h {
			h[i] = b
		}
		return h
	}
	working, staged := mk(1), mk(2)
	preWork, from, preHead := mk(3), mk(4), mk(5)
	rebPre, rebOnto := mk(6), mk(7)
	ms := &MergeState{preMergeWorkingAddr: &preWork, fromCommitAddr: &from, fromCommitSpec: "x", preMergeHeadCommitAddr: &preHead}
	rs := NewRebaseState(rebPre, rebOnto, "b", 0, 0, 0, false, false)
	msg := workingset_flatbuffer(working, &staged, ms, rs, nil)
	seen := map[hash.Hash]bool{}
	err := types.SerialMessage(msg).WalkAddrs(types.Format_DOLT, func(a hash.Hash) error { seen[a] = true; return nil })
	if err != nil {
		t.Fatal(err)
	}
	for name, h := range map[string]hash.Hash{"working": working, "staged": staged, "merge pre-working": preWork, "merge from-commit": from,
		"merge pre-merge-head": preHead, "rebase pre-working": rebPre, "rebase onto-commit": rebOnto} {
		if !seen[h] {
			t.Errorf("WalkAddrs did not report the %s address", name)
		}
	}
}
