package binlogreplication

import (
	"context"
	"fmt"
	"testing"
	"time"

	"github.com/dolthub/vitess/go/mysql"
	querypb "github.com/dolthub/vitess/go/vt/proto/query"
	"github.com/stretchr/testify/require"
)

// Property C40: a TIME value emitted in a row event must decode, with a standard MySQL binlog decoder, to the value
// stored in Dolt. A negative TIME with a fractional part whose seconds field is 59 was emitted with a sexagesimal
// carry (seconds 59 -> 0, minutes + 1); the TIME2 format needs a plain +1 on the packed hour/minute/second integer.
func TestVerifC40NegativeTimeWithFraction(t *testing.T) {
	s := timeSerializer{}
	for _, tc := range []struct {
		micros int64
		want   string
	}{
		{-(1*1_000_000 + 500_000), "-00:00:01.500000"},
		{-(58*1_000_000 + 250_000), "-00:00:58.250000"},
		{-(59*1_000_000 + 500_000), "-00:00:59.500000"},
		{-((59*60+59)*1_000_000 + 1), "-00:59:59.000001"},
		{-(59 * 1_000_000), "-00:00:59.000000"},
		{59*1_000_000 + 500_000, "00:00:59.500000"},
	} {
		t.Run(tc.want, func(t *testing.T) {
			data, err := s.serialize(context.Background(), nil, time.UnixMicro(tc.micros).UTC(), nil)
			require.NoError(t, err)
			typ, meta := s.metadata(nil, nil)
			v, n, err := mysql.CellValue(data, 0, typ, meta, querypb.Type_TIME)
			require.NoError(t, err)
			require.Equal(t, len(data), n)
			require.Equal(t, tc.want, fmt.Sprintf("%s", v.Raw()))
		})
	}
}
