// Demonstration of a genuine defect found by the bounds obligation nbs.(*archiveReader).iterate#bounds (property C10).
//
// The archive index stores the cumulative end offset of every byte span as a raw big-endian uint64, and the loader
// reads them without validation. One corrupted byte can make two neighbours descend; getByteSpanByID then computes a
// length that wraps around to more than 2^63. In iterate and tolerantIterate int(span.length) is negative, the loop
// that grows the scratch buffer is skipped, and buf[:span.length] panics: walking a damaged archive (garbage
// collection, fsck) crashes the process instead of reporting the damage.
//
// Copy to go/store/nbs/ and run: go test ./store/nbs -run TestVerifFindingArchiveIterateCorruptSpanIndex -vet=off
// It fails on the tree before the repair and passes after it.

package nbs

import (
	"bytes"
	"context"
	"encoding/binary"
	"fmt"
	"io"
	"testing"

	"github.com/stretchr/testify/require"

	"github.com/dolthub/dolt/go/store/chunks"
	"github.com/dolthub/dolt/go/store/hash"
)

type verifFindingReaderAt struct{ br *bytes.Reader }

func (r verifFindingReaderAt) ReadAtWithStats(_ context.Context, p []byte, off int64, _ *Stats) (int, error) {
	return r.br.ReadAt(p, off)
}
func (r verifFindingReaderAt) Reader(_ context.Context) (io.ReadCloser, error) {
	r.br.Seek(0, io.SeekStart)
	return io.NopCloser(r.br), nil
}
func (r verifFindingReaderAt) Close() error                  { return nil }
func (r verifFindingReaderAt) clone() (tableReaderAt, error) { return r, nil }

func TestVerifFindingArchiveIterateCorruptSpanIndex(t *testing.T) {
	ctx := context.Background()

	// a small, valid archive of three 300-byte chunks, written by the real writer
	sink := NewFixedBufferByteSink(make([]byte, 1<<20))
	aw := newArchiveWriterWithSink(sink)
	for i := 0; i < 3; i++ {
		data := bytes.Repeat([]byte{byte(i + 1), byte(7 * i), 0xa5}, 100)
		for k := range data {
			data[k] ^= byte(k * (i + 3)) // incompressible enough that the span ends exceed 255
		}
		h := hash.Of(data)
		cc := ChunkToCompressedChunk(chunks.NewChunkWithHash(h, data))
		id, err := aw.writeByteSpan(cc.FullCompressedChunk)
		require.NoError(t, err)
		require.NoError(t, aw.stageSnappyChunk(h, id))
	}
	require.NoError(t, aw.finalizeByteSpans())
	require.NoError(t, aw.indexFinalize(archiveOrigin{}))
	file := append([]byte{}, sink.buff[:sink.pos]...)
	name, err := aw.getName()
	require.NoError(t, err)

	open := func(b []byte) (archiveReader, error) {
		return newArchiveReader(ctx, verifFindingReaderAt{bytes.NewReader(b)}, name, uint64(len(b)), NewUnlimitedMemQuotaProvider(), &Stats{})
	}
	good, err := open(file)
	require.NoError(t, err)
	n := 0
	require.NoError(t, good.iterate(ctx, func(chunks.Chunk) error { n++; return nil }, &Stats{}))
	require.Equal(t, 3, n)

	// corrupt ONE byte of the on-disk span index: the end offset of span 2 loses its second-lowest byte
	span := good.footer.indexByteOffsetSpan()
	end1 := binary.BigEndian.Uint64(file[span.offset:])
	end2 := binary.BigEndian.Uint64(file[span.offset+8:])
	require.Greater(t, end2, uint64(255))
	bad := append([]byte{}, file...)
	bad[span.offset+8+6] = 0
	require.Less(t, binary.BigEndian.Uint64(bad[span.offset+8:]), end1, "the corrupted entry must descend")

	rdr, err := open(bad)
	if err != nil {
		return // rejecting the file at open is a correct answer too
	}

	var iterErr error
	var panicked interface{}
	func() {
		defer func() { panicked = recover() }()
		iterErr = rdr.iterate(ctx, func(chunks.Chunk) error { return nil }, &Stats{})
	}()
	require.Nil(t, panicked, fmt.Sprintf("iterate over an archive with one corrupted index byte panicked: %v", panicked))
	require.Error(t, iterErr, "the damage must be reported")

	reported := 0
	func() {
		defer func() { panicked = recover() }()
		rdr.tolerantIterate(ctx, func(chunks.Chunk) {}, func(error) { reported++ }, &Stats{})
	}()
	require.Nil(t, panicked, fmt.Sprintf("tolerantIterate over an archive with one corrupted index byte panicked: %v", panicked))
	require.Greater(t, reported, 0, "the damage must be reported")
}
