package binlogreplication

import (
	"fmt"
	"strings"
	"testing"

	"github.com/dolthub/vitess/go/mysql"
	querypb "github.com/dolthub/vitess/go/vt/proto/query"
	"github.com/stretchr/testify/require"
)

// Property C40: row events must decode, with a standard MySQL binlog decoder (vitess mysql.CellValue), to the values
// stored in Dolt. A JSON object whose key is 256 bytes or longer is emitted with a wrong key length: the high byte of
// the 16-bit little-endian key length was written as byte(len<<8), which is always 0.
func TestVerifC40JsonObjectLongKey(t *testing.T) {
	for _, n := range []int{10, 255, 256, 300, 1000} {
		t.Run(fmt.Sprintf("key_len_%d", n), func(t *testing.T) {
			key := strings.Repeat("k", n)
			typeId, enc, err := encodeJsonObject(map[string]any{key: true}, false)
			require.NoError(t, err)
			// the JSON column payload: 4-byte length prefix, type id, document
			doc := append([]byte{typeId}, enc...)
			wire := append([]byte{byte(len(doc)), byte(len(doc) >> 8), byte(len(doc) >> 16), byte(len(doc) >> 24)}, doc...)
			var decoded string
			func() {
				defer func() {
					if r := recover(); r != nil {
						decoded = fmt.Sprintf("decoder panicked: %v", r)
					}
				}()
				v, _, err := mysql.CellValue(wire, 0, mysql.TypeJSON, 4, querypb.Type_JSON)
				if err != nil {
					decoded = "decoder error: " + err.Error()
					return
				}
				decoded = string(v.Raw())
			}()
			require.Equal(t, "JSON_OBJECT('"+key+"',true)", decoded)
		})
	}
}
