#!/bin/sh
# Builds the verifier (govc) offline from /verif/engine and warms the build cache for the target packages.
set -e
cd "$(dirname "$0")"
. ./env.sh
mkdir -p bin evidence
(cd engine && go build -o ../bin/govc .)
# warm: type-check the target packages once with the verif tag (compiles export data into the build cache)
(cd /repo/go && go build -tags verif ./store/nbs/... ./store/val/... ./store/datas/... ./store/types/... ./store/blobstore/... ./store/prolly/... ./libraries/doltcore/ref/... >/dev/null 2>&1 || true)
echo setup ok
